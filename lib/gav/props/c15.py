"""C15 - heap interop preserves contents, needs exact length, and reuses the allocation."""

from ..core import PROVED, REFUTED, UNKNOWN, MISSING
from ..poly import Poly, prove
from ..rules import vstr, fstr, payload_calls
from ..typestate import Classifier
from ..tys import tstr, pointee, adt_args, is_ga, strip_wrappers
from . import c16, c07

EXPLANATION = (
    "Static analysis of impl_alloc.rs under config F1 (F2 in thorough). C15.G length guards: the Box<[T]> -> Box<GenericArray<T, N>> pointer cast is reached only under len == N and the LengthError exits only under len != N "
    "(the source is then still an ordinary owner, dropped once); TryFrom<Vec<T>> fills only under len == N; try_from_vec / TryFrom<Box<[T]>> delegate. C15.R allocation reuse / O(1): into_boxed_slice and try_from_boxed_slice are "
    "a raw round trip of the SAME pointer (offset 0, length exactly N) with equal layouts (shared rule C16.P) and their bodies contain no allocating or copying callee; into_vec = Vec::from(boxed slice), try_from_vec = try_from_boxed_slice(vec.into_boxed_slice()) "
    "(std documents both as allocation-preserving when len == capacity). C15.K no stack round trip: in the boxed constructors (boxed generate and its closure, default_boxed, try_boxed_from_iter, boxed from_iter, __from_vec_helper, try_from_vec, "
    "try_from_boxed_slice, into_boxed_slice, into_vec) no local, temporary, argument or return place has a by-value type containing a GenericArray - only &, &mut, *mut and Box of it - so no stack frame on the path ever holds the array "
    "(the static content of 'builds arrays far larger than the thread's stack'). C15.C contents/order: the Vec fill goes through extend (C07.Z order), everything else is a reinterpretation at offset 0.")

K = "GenericArray<$0,$1>::"
BOX = "alloc::boxed::Box<GenericArray<$0,$1>,alloc::alloc::Global>"
NO_STACK = [
    "<%s as GenericSequence<$0>>::generate" % BOX, "<%s as GenericSequence<$0>>::generate::{closure#0}" % BOX,
    K + "default_boxed", K + "default_boxed::{closure#0}", K + "try_boxed_from_iter", "<%s as core::iter::FromIterator<$0>>::from_iter" % BOX,
    K + "__from_vec_helper", K + "try_from_vec", K + "try_from_boxed_slice", K + "into_boxed_slice", K + "into_vec",
    "<%s as core::iter::IntoIterator>::into_iter" % BOX,
]
ALLOCATING = ("alloc::alloc::", "alloc::vec::Vec::<T>::with_capacity", "alloc::boxed::Box::<T>::new", "alloc::slice::<impl [T]>::to_vec", "core::clone::Clone::clone",
              "alloc::vec::Vec::<T>::new", "core::iter::Iterator::collect", "alloc::vec::from_elem")


def by_value_array(t, depth=0):
    """Type holds a GenericArray by value (not behind a reference / pointer / Box)."""
    if t is None or depth > 8:
        return False
    k = t.get("k")
    if k in ("ref", "ptr", "prim", "param", "fndef"):
        return False
    if k == "adt":
        if t["def"] == "GenericArray":
            return True
        if t["def"] in ("alloc::boxed::Box", "alloc::vec::Vec", "core::ptr::NonNull", "core::marker::PhantomData", "alloc::vec::IntoIter", "alloc::vec::into_iter::IntoIter"):
            return False
        return any(by_value_array(x, depth + 1) for x in t["args"] if x.get("k") != "region")
    if k in ("array", "slice"):
        return by_value_array(t["t"], depth + 1)
    if k == "tuple":
        return any(by_value_array(x, depth + 1) for x in t["ts"])
    if k == "closure":
        return any(by_value_array(x, depth + 1) for x in t.get("upvars", []))
    return False


def check_no_stack(ctx, cfg):
    rule = "C15.K"
    db = ctx.db(cfg)
    n = 0
    fns = [k for k in NO_STACK if "{closure" not in k]
    todo = []
    for key in fns:
        b = ctx.body(cfg, key, rule)
        if b is None:
            continue
        todo.append(b)
        # closures defined inside a listed constructor run in the same frames: discovered, not anchored
        todo += [c for c in db.bodies if c["kind"] == "Closure" and c.get("root") == b["path"]]
    for b in todo:
        key = b["key"]
        bad = [(i, l["s"]) for i, l in enumerate(b["mir"]["locals"]) if by_value_array(l["ty"])]
        ctx.ob(rule, key, not bad, "locals/temporaries holding a GenericArray by value: %s" % (bad[:3] if bad else "none (%d locals inspected)" % len(b["mir"]["locals"])), at=b["at"], cfg=cfg)
        n += 1
        # crate-local callees reached from here must be on the list too or be array-free themselves
        for blk in b["mir"]["blocks"]:
            t = blk["term"]
            if t["k"] == "call" and t["f"].get("k") == "fn":
                for p in (t["f"].get("res"), t["f"]["def"]):
                    cb = db.by_path.get(p) if p else None
                    if cb is not None and cb["key"] not in NO_STACK:
                        bad2 = [(i, l["s"]) for i, l in enumerate(cb["mir"]["locals"]) if by_value_array(l["ty"])]
                        ctx.ob(rule, "%s -> %s" % (key, cb["key"]), not bad2, "callee %s holds a GenericArray by value: %s" % (cb["key"], bad2[:2] if bad2 else "no"), at=cb["at"], cfg=cfg, frozen=False)
                        break
    ctx.floor(rule, "boxed constructors inspected (%s)" % cfg, n, len(fns))


def check_guards(ctx, cfg):
    rule = "C15.G"
    # try_from_boxed_slice
    key = K + "try_from_boxed_slice"
    b = ctx.body(cfg, key, rule)
    if b is not None:
        a = ctx.analysis(cfg, key)
        N = a.tenv.length({"k": "param", "n": b["generics"][1]["n"]})
        L = Poly.atom(("len", ("arg", 1)))
        fr = [c for c in a.calls if c.fn.endswith("::from_raw")]
        ok = len(fr) == 1 and a.prove(fr[0].facts, "Eq", L, N)
        ctx.ob(rule, key + "#cast", ok, "Box<[T]> -> Box<GenericArray<T, N>> hand-over reached under %s; required len == N" % (fstr(fr[0].facts) if fr else "-"), at=b["at"], cfg=cfg)
        oks, errs = c07.results(a)
        e_ok = bool(errs) and all(a.prove(e["facts"], "Ne", L, N) for e in errs)
        untouched = all(not any(c.fn.endswith("::into_raw") and a.dominates(c.bb, e["site"][0]) for c in a.calls) for e in errs)
        ctx.ob(rule, key + "#err", e_ok and untouched, "LengthError only under len != N: %s; the boxed slice is still an ordinary owner on that path (dropped once): %s" % (e_ok, untouched), at=b["at"], cfg=cfg)
    # TryFrom<Vec<T>>
    key = "<GenericArray<$0,$1> as core::convert::TryFrom<alloc::vec::Vec<$0,alloc::alloc::Global>>>::try_from"
    b = ctx.body(cfg, key, rule)
    if b is not None:
        a = ctx.analysis(cfg, key)
        N = a.tenv.length({"k": "param", "n": b["generics"][1]["n"]})
        lens = [c for c in a.calls if c.fn == "alloc::vec::Vec::<T, A>::len" and c.ret[0] == "I"]
        ext = [c for c in a.calls if c.key == "IntrusiveArrayBuilder<$0,$1>::extend"]
        ok = len(lens) == 1 and len(ext) == 1 and a.prove(ext[0].facts, "Eq", lens[0].ret[1], N)
        src = ext[0].args[1] if ext else None
        src_ok = src is not None and isinstance(src, tuple) and src[:3] == ("V", "iter", "into_iter") and src[3] == ("V", "arg", 1)
        oks, errs = c07.results(a)
        e_ok = bool(errs) and bool(lens) and all(a.prove(e["facts"], "Ne", lens[0].ret[1], N) for e in errs)
        # the Vec is still an untouched ordinary owner on the Err paths: no call took `&mut v` (set_len, drain, ...) before them
        for e in errs:
            for c in a.calls:
                if a.dominates(c.bb, e["site"][0]) and c.bb != e["site"][0]:
                    for av, op in zip(c.args, c.term["args"]):
                        ot = a.operand_ty(op)
                        if av[0] == "P" and av[1] == ("local", 1) and ot is not None and ot.get("k") == "ref" and ot["mut"]:
                            e_ok = False
        form = "source is v.into_iter() (elements in order, C07.Z): %s" % src_ok
        if not ext:
            # bulk-move form: under len == N the Vec is emptied (set_len(0): it will only free its buffer) and its N elements are copied, from the
            # start of its buffer, over the whole of an uninitialised array that is then returned; nothing that can unwind runs in between
            cl = Classifier(ctx.db(cfg))
            cps = [c for c in a.calls if c.fn in ("core::ptr::copy_nonoverlapping", "core::ptr::copy")]
            sls = [c for c in a.calls if c.fn == "alloc::vec::Vec::<T, A>::set_len" and c.args[0][0] == "P" and c.args[0][1] == ("local", 1)]
            aps = [c for c in a.calls if c.fn in ("alloc::vec::Vec::<T, A>::as_ptr", "alloc::vec::Vec::<T, A>::as_mut_ptr") and c.args[0][0] == "P" and c.args[0][1] == ("local", 1)]
            ok = src_ok = False
            if len(cps) == 1 and len(sls) == 1 and len(aps) == 1 and len(lens) == 1:
                cp, sl, ap = cps[0], sls[0], aps[0]
                guard = all(a.prove(c.facts, "Eq", lens[0].ret[1], N) for c in (cp, sl))
                zero = sl.args[1] == ("I", Poly.const(0))
                from_start = cp.args[0] == ap.ret
                dst = cp.args[1]
                dty = tstr(a.local_ty(dst[1][1])) if dst[0] == "P" and dst[1][0] == "local" else ""
                whole = dst[0] == "P" and not dst[2].t and "GenericArray<" in dty and "MaybeUninit<" in dty and a.as_poly(cp.args[2]) == N
                ai = [c for c in a.calls if c.fn.endswith("::assume_init") or c.fn.endswith("::array_assume_init")]  # the by-value hand-over of the filled array
                ret_ok = bool(oks) and len(ai) == 1 and all(g["ops"][0] == ai[0].ret for g in oks)
                foreign = [c.fn for c in a.calls if cl.classify(c, b) == "foreign" and (a.dominates(cp.bb, c.bb) or a.dominates(sl.bb, c.bb)) and c not in (cp, sl) and c not in ai
                           and not any(a.dominates(g["site"][0], c.bb) for g in oks)]
                ok = guard
                src_ok = zero and from_start and whole and ret_ok and not foreign
                form = ("bulk move: Vec emptied by set_len(0): %s; N elements copied from the start of its buffer: %s over the whole uninitialised array: %s, which is what is returned: %s; "
                        "nothing that can unwind between emptying, copying and returning: %s" % (zero, from_start, whole, ret_ok, (not foreign) or sorted(set(foreign))))
            elif not cps and len(sls) == 1 and len(aps) == 1 and len(lens) == 1:
                # the same as one whole-value read: under len == N, `ptr::read(v.as_ptr() as *const GenericArray<T, N>)` is what is returned and
                # the Vec is emptied (before or after the read: nothing that can unwind runs between them)
                sl, ap = sls[0], aps[0]
                rds = [c for c in a.calls if c.fn in ("core::ptr::read", "core::ptr::read_unaligned") and c.args[0] == ap.ret]
                if len(rds) == 1:
                    rd = rds[0]
                    guard = all(a.prove(c.facts, "Eq", lens[0].ret[1], N) for c in (rd, sl))
                    zero = sl.args[1] == ("I", Poly.const(0))
                    whole = bool(rd.targs) and tstr(rd.targs[0]) == tstr(b["impl_self"]["t"] if "t" in b["impl_self"] else b["impl_self"])
                    ret_ok = bool(oks) and all(g["ops"][0] == rd.ret for g in oks)
                    foreign = [c.fn for c in a.calls if cl.classify(c, b) == "foreign" and (a.dominates(rd.bb, c.bb) or a.dominates(sl.bb, c.bb)) and c not in (rd, sl)
                               and not any(a.dominates(g["site"][0], c.bb) for g in oks)]
                    ok = guard
                    src_ok = zero and whole and ret_ok and not foreign
                    cps = rds   # (for the Err-path clause below)
                    form = ("bulk move: Vec emptied by set_len(0): %s; its buffer read from the start as one GenericArray<T, N> (N elements): %s, which is what is returned: %s; "
                            "nothing that can unwind between emptying, reading and returning: %s" % (zero, whole, ret_ok, (not foreign) or sorted(set(foreign))))
                else:
                    form = "neither builder.extend(v.into_iter()) nor a set_len(0) + bulk copy found"
            else:
                form = "neither builder.extend(v.into_iter()) nor a set_len(0) + bulk copy found"
            # on the Err paths the Vec must still be untouched: the set_len may not dominate them
            e_ok = bool(errs) and bool(lens) and all(a.prove(e["facts"], "Ne", lens[0].ret[1], N) for e in errs) and not any(a.dominates(c.bb, e["site"][0]) for e in errs for c in sls + cps)
        ctx.ob(rule, key, ok and src_ok and e_ok, "fill reached only under v.len() == N: %s; %s; Err only under len != N with the Vec untouched: %s" % (ok, form, e_ok), at=b["at"], cfg=cfg)
    # delegations
    for key, chain in ((K + "try_from_vec", ["alloc::vec::Vec::<T, A>::into_boxed_slice", K + "try_from_boxed_slice"]),
                       (K + "into_vec", [K + "into_boxed_slice", ("core::convert::From::from", "alloc::slice::<impl [T]>::into_vec", "core::convert::Into::into")]),
                       ("<GenericArray<$0,$1> as core::convert::TryFrom<alloc::boxed::Box<[$0],alloc::alloc::Global>>>::try_from",
                        [("core::convert::From::from", "alloc::slice::<impl [T]>::into_vec", "core::convert::Into::into"),
                         ("core::convert::TryInto::try_into", "core::convert::TryFrom::try_from", "<GenericArray<$0,$1> as core::convert::TryFrom<alloc::vec::Vec<$0,alloc::alloc::Global>>>::try_from")]),
                       ("<alloc::boxed::Box<[$0],alloc::alloc::Global> as core::convert::From<GenericArray<$0,$1>>>::from", ["alloc::boxed::Box::<T>::new", K + "into_boxed_slice"]),
                       ("<alloc::vec::Vec<$0,alloc::alloc::Global> as core::convert::From<GenericArray<$0,$1>>>::from",
                        [("<alloc::boxed::Box<[$0],alloc::alloc::Global> as core::convert::From<GenericArray<$0,$1>>>::from", "alloc::boxed::Box::<T>::new"),
                         ("core::convert::Into::into", K + "into_vec", "alloc::slice::<impl [T]>::into_vec")])):
        b = ctx.body(cfg, key, "C15.D")
        if b is None:
            continue
        a = ctx.analysis(cfg, key)
        pc = payload_calls(a)
        names = [c.key or c.fn for c in pc]
        # a chain element may name alternatives: std's allocation-preserving Box<[T]> -> Vec<T> conversions are one another's bodies
        ok = len(names) == len(chain) and all((nm in alt) if isinstance(alt, tuple) else nm == alt for nm, alt in zip(names, chain))
        if ok:
            first = pc[0].args[0]
            ok = first == ("V", "arg", 1) or (first[0] == "P" and first[1] == ("arg", 1) and not first[2].t)
            ok = ok and pc[1].args[0] == pc[0].ret and all(r["val"] == pc[1].ret for r in a.returns)
        det = "body is the chain %s applied to the argument, result returned: %s" % (" -> ".join((x[0] if isinstance(x, tuple) else x).split("::")[-1] for x in chain), ok)
        if not ok:
            alt = ALT_FORMS.get(key)
            r = alt(ctx, cfg, a, b) if alt else None
            if r is not None:
                ok, det = r
        ctx.ob("C15.D", key, ok, det, at=b["at"], cfg=cfg)
    # the hidden Vec -> Box<GenericArray> helpers of box_arr! (discovered: any `GenericArray::__*` function taking a Vec<T> and returning the box)
    check_vec_helpers(ctx, cfg)


def check_vec_helpers(ctx, cfg, rule="C15.D"):
    helpers = []
    for hb in ctx.db(cfg).bodies:
        if hb["kind"] == "AssocFn" and hb["key"].startswith(K + "__") and "sig" in hb:
            vi = [i for i, t in enumerate(hb["sig"]["inputs"]) if t.get("k") == "adt" and t["def"] == "alloc::vec::Vec"]
            out = hb["sig"]["output"]
            if len(vi) == 1 and out.get("k") == "adt" and out["def"] == "alloc::boxed::Box" and is_ga(adt_args(out)[0]):
                helpers.append((hb, vi[0] + 1))
    if not any(hb["key"] == K + "__from_vec_helper" for hb, _ in helpers):
        ctx.body(cfg, K + "__from_vec_helper", rule)
    for hb, vi in helpers:
        check_vec_helper(ctx, cfg, hb, vi, rule)
    return len(helpers)


def check_vec_helper(ctx, cfg, b, vi, rule="C15.D"):
    """A macro helper adopting a Vec as Box<GenericArray<T, N>>: either try_from_vec(vec) unwrapped (unchecked only under the type-level tie
    Const<U>: IntoArrayLength<ArrayLength = N>), or the same hand-over written out under a len == N guard. Crate-local calls are expanded."""
    key = b["key"]
    name = key.split("::")[-1]
    a = ctx.analysis_inl(cfg, key, force="*", keep=(K + "try_from_vec",), tag="helper")
    pc = payload_calls(a)
    vec = ("V", "arg", vi)
    eqp = any(p.get("k") == "proj" and p["def"].endswith("IntoArrayLength::ArrayLength") for p in b.get("predicates", []))
    tv = [c for c in a.calls if c.key == K + "try_from_vec"]
    ok, form = False, "neither try_from_vec(vec) unwrapped nor a guarded into_boxed_slice -> from_raw hand-over found"
    if len(tv) == 1 and tv[0].args[0] == vec:
        uw = [c for c in a.calls if c.args and c.args[0] == tv[0].ret and c.fn.split("::")[-1] in ("unwrap", "expect", "unwrap_unchecked")]
        checked = bool(uw) and uw[0].fn.split("::")[-1] != "unwrap_unchecked"
        ok = len(uw) == 1 and (checked or eqp) and all(r["val"] == uw[0].ret or r["val"][0] == "P" for r in a.returns)
        form = "try_from_vec(vec).%s()%s" % (uw[0].fn.split("::")[-1] if uw else "?", "" if checked else " with Const<U>: IntoArrayLength<ArrayLength = N> tying the unit-array length to N: %s (that vec.len() == U is established by the macro expansion, C20.B)" % eqp)
    else:
        # the same hand-over written out: into_boxed_slice(vec), then the SAME pointer back into a Box<GenericArray<T, N>> - reached only under len == N
        N_ = a.tenv.length({"k": "param", "n": b["generics"][1]["n"]})
        ibs = [c for c in a.calls if c.fn == "alloc::vec::Vec::<T, A>::into_boxed_slice" and c.args[0] == vec]
        ir = [c for c in a.calls if c.fn.endswith("::into_raw")]
        fr = [c for c in a.calls if c.fn.endswith("::from_raw")]
        if len(ibs) == 1 and len(ir) == 1 and len(fr) == 1 and not all(r["val"] == fr[0].ret for r in a.returns):
            # the adopted box may reach the return through a Result and a match (try_from_boxed_slice expanded, `Ok(b) => b`, the Err arm an
            # optimiser hint): judge the tree-shaped body, where each return path carries its own value; a path that ends in
            # `unreachable_unchecked` does not return - that hint is admissible exactly like `unwrap_unchecked` (the type-level tie, checked below)
            a2 = ctx.analysis_inl(cfg, key, force="*", keep=(K + "try_from_vec",), tag="helper", split=True)
            ir2 = [c for c in a2.calls if c.fn.endswith("::into_raw")]
            fr2 = [c for c in a2.calls if c.fn.endswith("::from_raw")]
            hints = [c for c in a2.calls if c.fn == "core::hint::unreachable_unchecked"]
            if a2.returns and len(ir2) == 1 and fr2 and all(any(r["val"] == f.ret for f in fr2) for r in a2.returns) and (not hints or eqp):
                a = a2
                ibs = [c for c in a.calls if c.fn == "alloc::vec::Vec::<T, A>::into_boxed_slice" and c.args[0] == vec]
                ir, fr = ir2, [f for f in fr2 if any(r["val"] == f.ret for r in a2.returns)][:1]
        if len(ibs) == 1 and len(ir) == 1 and len(fr) == 1:
            same = ir[0].args[0] == ibs[0].ret and fr[0].args[0][0] == "P" and ir[0].ret[0] == "P" and fr[0].args[0][1] == ir[0].ret[1] and fr[0].args[0][2] == ir[0].ret[2]
            ln = [c for c in a.calls if c.fn == "core::slice::<impl [T]>::len" and c.ret[0] == "I"]
            guard = any(a.prove(fr[0].facts, "Eq", c.ret[1], N_) for c in ln) or (ir[0].ret[3] is not None and a.prove(fr[0].facts, "Eq", ir[0].ret[3], N_))
            ok = same and guard and all(r["val"] == fr[0].ret for r in a.returns)
            form = "Box::from_raw(Box::into_raw(vec.into_boxed_slice()) as *mut GenericArray<T, N>) under len == N (same pointer: %s, guard: %s)" % (same, guard)
    if not ok:
        # through std's boxed native array: Box::<[T; U]>::try_from(vec) (std: into_boxed_slice, Ok exactly when len == U), unwrapped, and the
        # box re-typed in place as Box<GenericArray<T, N>> - the same block, sizes equal by the where-clause Const<U>: IntoArrayLength<ArrayLength = N>
        tf = [c for c in a.calls if c.fn == "core::convert::TryFrom::try_from" and "TryFrom<alloc::vec::Vec<" in (c.res or "") and "alloc::boxed::Box<[" in (c.res or "") and c.args and c.args[0] == vec]
        if len(tf) == 1:
            uw = [c for c in a.calls if c.args and c.args[0] == tf[0].ret and c.fn.split("::")[-1] in ("unwrap", "expect", "unwrap_unchecked")]
            ir = [c for c in a.calls if c.fn.endswith("::into_raw") and "Box::<T" in c.fn]
            fr = [c for c in a.calls if c.fn.endswith("::from_raw") and "Box::<T" in c.fn]
            if len(uw) == 1 and len(ir) == 1 and len(fr) == 1:
                checked = uw[0].fn.split("::")[-1] != "unwrap_unchecked"
                same = ir[0].args[0] == uw[0].ret and (fr[0].args[0] == ir[0].ret or (fr[0].args[0][0] == "P" and ir[0].ret[0] == "P" and fr[0].args[0][1] == ir[0].ret[1] and not fr[0].args[0][2].t))
                st_, dt_ = (ir[0].targs[0] if ir[0].targs else None), (fr[0].targs[0] if fr[0].targs else None)
                sizes = st_ is not None and dt_ is not None and st_.get("k") == "array" and is_ga(dt_) and prove(("==", a.tenv.size(st_) - a.tenv.size(dt_)), a.poly_facts(fr[0].facts))
                ok = bool(same and sizes and (checked or eqp) and all(r["val"] == fr[0].ret for r in a.returns))
                form = "Box::<[T; U]>::try_from(vec).%s() re-typed in place (same block: %s, sizes of [T; U] and GenericArray<T, N> equal under the where-clause: %s)%s" % (
                    uw[0].fn.split("::")[-1], same, bool(sizes), "" if checked else " with Const<U>: IntoArrayLength<ArrayLength = N>: %s (vec.len() == U is established by the macro expansion, C20.B)" % eqp)
    ctx.ob(rule, key, ok, "%s = %s: %s" % (name, form, ok), at=b["at"], cfg=cfg)


def alt_into_vec(ctx, cfg, a0, b):
    """into_vec written out: the returned Vec is made by an allocation-preserving std constructor from the SAME block (offset 0) with len == cap == N."""
    a = ctx.analysis_inl(cfg, b["key"], force="*", tag="heap")
    N = a.tenv.length({"k": "param", "n": b["generics"][1]["n"]})

    def same_block(p):
        return p[0] == "P" and p[1] == ("arg", 1) and not p[2].t
    frp = [c for c in a.calls if c.fn in ("alloc::vec::Vec::<T>::from_raw_parts", "alloc::vec::Vec::<T, A>::from_raw_parts_in")]
    conv = [c for c in a.calls if (c.fn in ("core::convert::From::from", "core::convert::Into::into", "alloc::slice::<impl [T]>::into_vec"))]
    others = [c.fn for c in payload_calls(a) if c not in frp and c not in conv and not c.fn.endswith("::into_raw") and not c.fn.endswith("::cast")]
    if len(frp) == 1 and not conv:
        c = frp[0]
        ok = same_block(c.args[0]) and a.as_poly(c.args[1]) == N and a.as_poly(c.args[2]) == N and all(r["val"] == c.ret for r in a.returns) and not others
        return ok, "into_vec = Vec::from_raw_parts(the box's own block at offset 0: %s, len N: %s, capacity N: %s), returned; no other call: %s" % (
            same_block(c.args[0]), a.as_poly(c.args[1]) == N, a.as_poly(c.args[2]) == N, not others)
    if len(conv) == 1 and not frp:
        c = conv[0]
        ok = same_block(c.args[0]) and c.args[0][3] == N and all(r["val"] == c.ret for r in a.returns) and not others
        return ok, "into_vec = std's allocation-preserving Box<[T]> -> Vec<T> conversion of the box's own block as a slice of exactly N elements: %s, returned; no other call: %s" % (same_block(c.args[0]) and c.args[0][3] == N, not others)
    return None


def alt_unbox(ctx, cfg, a, b):
    """TryFrom<Box<[T]>> for GenericArray written as `try_from_boxed_slice(value)` followed by moving the array out of the box on the Ok path
    (`.map(|b| *b)`, a match, or `?`): Ok carries the whole pointee of the Ok box, the box itself is then only freed, Err is passed on."""
    tb = [c for c in a.calls if c.key == K + "try_from_boxed_slice"]
    if len(tb) != 1:
        return None
    t0 = tb[0]
    arg_ok = t0.args[0][0] == "P" and t0.args[0][1] == ("arg", 1) and not t0.args[0][2].t
    oks, errs = c07.results(a)
    okbox = ("V", "proj", ("proj", t0.ret, (("v", 0), 0)))
    moved = bool(oks) and all(g["ops"][0] == ("V", "cell", (("obj", okbox[1:]), ())) and ("variant", t0.ret, 0) in g["facts"] for g in oks)
    errp = all(("variant", t0.ret, 1) in g["facts"] for g in errs)
    from ..typestate import has_generic
    deep = [d["tys"] for d in a.drops if not d["cleanup"] and has_generic(d["ty"]) and d["ty"].get("k") == "adt" and d["ty"]["def"] != "alloc::boxed::Box"]
    others = [c.fn for c in payload_calls(a) if c is not t0 and not (c.fn == "core::ops::Drop::drop" and ("variant", t0.ret, 0) in c.facts)]
    ok = arg_ok and moved and errp and not deep and not others
    return ok, ("try_from = try_from_boxed_slice(value) (whole argument: %s); Ok carries the array moved out of the Ok box: %s; Err only on its Err: %s; "
                "the emptied box is only freed (no element drop: %s); no other call: %s" % (arg_ok, moved, errp, not deep, not others or others))


ALT_FORMS = {K + "into_vec": alt_into_vec,
             "<GenericArray<$0,$1> as core::convert::TryFrom<alloc::boxed::Box<[$0],alloc::alloc::Global>>>::try_from": alt_unbox}


def check_reuse(ctx, cfg):
    rule = "C15.R"
    cl = Classifier(ctx.db(cfg))
    for key in (K + "into_boxed_slice", K + "try_from_boxed_slice", K + "into_vec", K + "try_from_vec"):
        b = ctx.body(cfg, key, rule)
        if b is None:
            continue
        a = ctx.analysis(cfg, key)
        bad = [c.fn for c in a.calls if any(c.fn.startswith(p) for p in ALLOCATING)]
        loops = any(s <= bbk for bbk, succs in a.edges.items() for s in succs if not a.blocks[s]["cleanup"] and a.reaches(s, bbk) and s != bbk)
        ctx.ob(rule, key, not bad and not loops, "allocating / copying callees: %s; loops: %s (O(1), same block handed over)" % (bad or "none", loops), at=b["at"], cfg=cfg)
    key = K + "into_boxed_slice"
    b = ctx.db(cfg).get(key)
    if b is not None:
        a = ctx.analysis(cfg, key)
        N = a.tenv.length({"k": "param", "n": b["generics"][1]["n"]})
        ok = bool(a.returns) and all(r["val"][0] == "P" and r["val"][1] == ("arg", 1) and not r["val"][2].t and r["val"][3] == N for r in a.returns)
        ctx.ob(rule, key + "#extent", ok, "returns the same block as a slice of exactly N elements at offset 0: %s" % ", ".join(vstr(r["val"]) for r in a.returns), at=b["at"], cfg=cfg)


def check(ctx):
    ctx.explanation = EXPLANATION
    ctx.trusted = ["Vec::from(Box<[T]>) and Vec::into_boxed_slice reuse the allocation when len == capacity (std documentation)", "Box / Vec ownership", "C01 layout equality of [T] of length N and GenericArray<T, N>"]
    ctx.assumptions = ["allocator call counts and block addresses as observed at run time are outside the claim", "stack usage of std's own frames (Vec::extend, vec!) is not analysed"]
    cfgs = ["F1", "F1N"] if ctx.tier == "quick" else ["F1", "F1N", "F2", "F2N"]
    ctx.need(*cfgs)
    for cfg in cfgs:
        check_guards(ctx, cfg)
        check_reuse(ctx, cfg)
        n = c16.check_handover(ctx, cfg)
        ctx.floor("C16.P", "raw ownership hand-overs (%s)" % cfg, n, 1)
        check_no_stack(ctx, cfg)
        c07.check_try(ctx, cfg, c07.K_TRYB, True)
        # "LengthError otherwise, with the source's elements dropped once": if the boxed collect fills its block through a guard, nothing may
        # unwind or return early between disarming the guard (finish()) and handing the elements on - C04.F's finish window, run here as C15.W
        # (S228: finish() before the surplus poll leaks the N elements of a too-long source)
        from . import c04 as _c04
        _c04.check_finish_window(ctx, cfg, "C15.W", only=(c07.K_TRYB, K + "try_from_vec", K + "try_from_boxed_slice"))
        # C15.N: the fallible conversions refuse a wrong length with Err, never with a panic (fully expanded, tree-shaped bodies)
        from ..rules import reachable_panics
        for k_ in (K + "try_from_vec", K + "try_from_boxed_slice") if cfg.endswith("N") else ():
            if ctx.db(cfg).get(k_) is not None:
                at_ = ctx.analysis_inl(cfg, k_, split=True, force="*", tag="np")
                pan = reachable_panics(at_, checks=False)
                ctx.ob("C15.N", k_, not pan, "no panicking exit in the fallible conversion: %s" % ((not pan) or pan), at=ctx.db(cfg).get(k_)["at"], cfg=cfg)
