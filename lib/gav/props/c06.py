"""C06 - the by-value iterator behaves as a double-ended, exact-size, fused queue."""

from ..core import PROVED, REFUTED, UNKNOWN, MISSING
from ..poly import Poly, prove
from ..absint import analyze, State
from ..models import verify_models
from ..ownership import find_in, owner_adts
from ..rules import vstr, fstr, payload_calls, peq
from ..typestate import Classifier, check_closure_protocol
from ..tys import tstr

EXPLANATION = (
    "Refinement proof obligations, decided on the polymorphic MIR of iter.rs (configs F0+F1). With the abstraction alpha(iter) = array[index .. index_back], the queue "
    "behaviour over all interleavings follows by induction from per-method obligations, each checked by abstract interpretation with the invariant index <= index_back <= N "
    "assumed at entry: C06.I the invariant is established by into_iter (0, N) and preserved by every store to the two indices; C06.S each method's effect equals the deque "
    "specification - next reads slot `index` and stores index+1 only under index < index_back and returns Some of exactly that slot, next_back stores index_back-1 and reads that slot, "
    "the None paths store nothing (fused), len = index_back - index, size_hint = (len, Some(len)), count = len, nth/nth_back skip min(n, len) elements at the right end then delegate to next/next_back, "
    "last = next_back, as_slice/as_mut_slice/Debug view exactly [index, index_back), fold/rfold traverse that range forward/backward with one read and one index step per element before f and pass (acc, value), "
    "clone copies [index, index_back) element-wise in order into the front of a fresh iterator (0, count) without storing to the original; C06.U every get_unchecked(_mut) index/range is within [0, N] under the invariant. "
    "Elements are opaque values of a type parameter, so 'which element' is 'which index': nothing numerical is left to execute.")

IT = "GenericArrayIter<$0,$1>"
K = {
    "next": "<%s as core::iter::Iterator>::next" % IT,
    "next_back": "<%s as core::iter::DoubleEndedIterator>::next_back" % IT,
    "nth": "<%s as core::iter::Iterator>::nth" % IT,
    "nth_back": "<%s as core::iter::DoubleEndedIterator>::nth_back" % IT,
    "len": "<%s as core::iter::ExactSizeIterator>::len" % IT,
    "size_hint": "<%s as core::iter::Iterator>::size_hint" % IT,
    "count": "<%s as core::iter::Iterator>::count" % IT,
    "last": "<%s as core::iter::Iterator>::last" % IT,
    "fold": "<%s as core::iter::Iterator>::fold" % IT,
    "rfold": "<%s as core::iter::DoubleEndedIterator>::rfold" % IT,
    "clone": "<%s as core::clone::Clone>::clone" % IT,
    "debug": "<%s as core::fmt::Debug>::fmt" % IT,
    "as_slice": "%s::as_slice" % IT,
    "as_mut_slice": "%s::as_mut_slice" % IT,
    "into_iter": "<GenericArray<$0,$1> as core::iter::IntoIterator>::into_iter",
}


class It:
    """Field layout of GenericArrayIter in this build + helpers for a &mut self / &self / by-value self receiver."""

    def __init__(self, db):
        self.path = None
        for p, a in db.adts.items():
            if p.split("::")[-1] == "GenericArrayIter":
                self.path, self.adt = p, a
        names = [f["name"] for f in self.adt["fields"]]
        self.ia, self.i0, self.i1 = names.index("array"), names.index("index"), names.index("index_back")

    def entry(self, an, byval):
        """(index0, back0) atoms at entry and the invariant facts."""
        if byval:
            lo = Poly.atom(("proj", ("proj", ("V", "arg", 1), (self.i0,))))
            hi = Poly.atom(("proj", ("proj", ("V", "arg", 1), (self.i1,))))
        else:
            lo = Poly.atom(("cell", (("arg", 1), (self.i0,))))
            hi = Poly.atom(("cell", (("arg", 1), (self.i1,))))
        return lo, hi

    def inv_facts(self, byval):
        def f(an):
            lo, hi = self.entry(an, byval)
            b = an.body
            targs = [x for x in b["impl_self"]["args"] if x.get("k") != "region"]
            N = an.tenv.length(targs[-1])
            return [("poly", ">=", hi - lo), ("poly", ">=", N - hi)]
        return f


def analyse(ctx, cfg, key, it, byval=False):
    """Analysis under the iterator invariant; private helpers are inlined (ctx.analysis_inl)."""
    db = ctx.db(cfg)
    b = db.get(key)
    if b is None:
        return None, None
    return b, ctx.analysis_inl(cfg, key, it.inv_facts(byval), tag="inv%d" % byval)


def NS(an):
    targs = [x for x in an.body["impl_self"]["args"] if x.get("k") != "region"]
    return an.tenv.length(targs[-1]), an.tenv.size(targs[0])


def stores_to(an, it, base):
    out = []
    for s in an.stores + an.assigns:
        c = s["cell"]
        if c[0] == base and len(c[1]) == 1 and c[1][0] in (it.i0, it.i1) and s not in out:
            out.append(s)
    # dedupe (stores is a subset of assigns for non-local bases)
    seen, res = set(), []
    for s in out:
        if s["site"] not in seen:
            seen.add(s["site"])
            res.append(s)
    return res


def check_invariant_preserved(ctx, cfg, name, b, an, it, base):
    """After each store to an index field, index <= index_back <= N still holds (other field = its current value)."""
    N, S = NS(an)
    for s in stores_to(an, it, base):
        st = State(None, s["facts"])
        # current value of the other field: look in the recorded memory of the nearest call is unavailable for statements; use entry atom unless stored earlier in the same block
        lo0, hi0 = it.entry(an, base[0] == "local")
        cur = {it.i0: lo0, it.i1: hi0}
        for s2 in stores_to(an, it, base):
            if s2 is s:
                break
            if an.dominates(s2["site"][0], s["site"][0]) and s2["val"][0] == "I":
                cur[s2["cell"][1][0]] = s2["val"][1]
        if s["val"][0] != "I":
            ctx.ob("C06.I", "%s#store#%s" % (K[name], s["site"][1]), UNKNOWN, "non-integer store to an index field", at=s.get("at"), cfg=cfg)
            continue
        cur[s["cell"][1][0]] = s["val"][1]
        pf = an.poly_facts(s["facts"])
        ok = prove((">=", cur[it.i1] - cur[it.i0]), pf) and prove((">=", N - cur[it.i1]), pf) and prove((">=", cur[it.i0]), pf)
        ctx.ob("C06.I", "%s#store_%s" % (K[name], "index" if s["cell"][1][0] == it.i0 else "index_back"), ok,
               "after the store: index = %r, index_back = %r; 0 <= index <= index_back <= N provable under %s: %s" % (cur[it.i0], cur[it.i1], fstr(s["facts"]), ok), at=s.get("at"), cfg=cfg)


def slot_reads(an, it, base):
    """ptr::read calls whose pointer is a slot of the iterator's own storage: (call, element index poly)."""
    N, S = NS(an)
    out = []
    for c in an.calls:
        if c.fn == "core::ptr::read" and c.args[0][0] == "P" and c.args[0][1] == ("field", base, (it.ia,)):
            out.append(c)
    return out


def check_next(ctx, cfg, it, name):
    rule = "C06.S"
    b, an = analyse(ctx, cfg, K[name], it)
    if b is None:
        ctx.ob(rule, K[name], MISSING, "method not found", cfg=cfg)
        return
    N, S = NS(an)
    lo, hi = it.entry(an, False)
    base = ("arg", 1)
    reads = slot_reads(an, it, base)
    sts = stores_to(an, it, base)
    ok = len(reads) == 1 and len(sts) == 1
    det = "expected one slot read and one index store; found %d / %d" % (len(reads), len(sts))
    if ok:
        r, s = reads[0], sts[0]
        pf = an.poly_facts(r.facts)
        guard = prove((">=", hi - lo - 1), pf) and prove((">=", hi - lo - 1), an.poly_facts(s["facts"]))
        if name == "next":
            slot_ok = peq(an, r.facts, r.args[0][2], lo * S)
            st_ok = s["cell"][1][0] == it.i0 and s["val"][0] == "I" and peq(an, s["facts"], s["val"][1], lo + 1)
            spec = "read slot index, store index+1"
        else:
            slot_ok = peq(an, r.facts, r.args[0][2], (hi - 1) * S)
            st_ok = s["cell"][1][0] == it.i1 and s["val"][0] == "I" and peq(an, s["facts"], s["val"][1], hi - 1)
            spec = "store index_back-1, read slot index_back-1"
        # returns Some(read value) on the guarded path, None otherwise, and the None path stores nothing
        somes = [g for g in an.aggregates if isinstance(g["kind"], tuple) and g["kind"][:2] == ("adt", "core::option::Option")]
        some_ok = any(g["kind"][2] == 1 and g["ops"] == (r.ret,) for g in somes)
        nones = [g for g in somes if g["kind"][2] == 0]
        none_ok = bool(nones) and all(prove((">=", lo - hi), an.poly_facts(g["facts"])) for g in nones)
        fused = all(not an.dominates(g["site"][0], s["site"][0]) and not an.reaches(g["site"][0], s["site"][0]) for g in nones)
        in_bounds = prove((">=", N * S - r.args[0][2] - S), pf) and prove((">=", r.args[0][2]), pf)
        ok = guard and slot_ok and st_ok and some_ok and none_ok and fused and in_bounds
        det = "%s: guard index < index_back dominates read and store: %s; slot: %s; store: %s; Some(that value) returned: %s; None only when empty: %s; None path stores nothing (fused): %s; slot within [0, N): %s" % (
            spec, guard, slot_ok, st_ok, some_ok, none_ok, fused, in_bounds)
    ctx.ob(rule, K[name], ok, det, at=b["at"], cfg=cfg)
    ctx.sample({"rule": rule, "method": name, "cfg": cfg, "detail": det})
    check_invariant_preserved(ctx, cfg, name, b, an, it, base)


DEFAULTED_OK = {
    "nth": "core's default nth = advance_by(n) then next(): defined through next() only",
    "nth_back": "core's default nth_back = advance_back_by(n) then next_back(): defined through next_back() only",
    "count": "core's default count folds over next()", "last": "core's default last folds over next()",
    "fold": "core's default fold loops over next()", "rfold": "core's default rfold loops over next_back()",
    "len": "core's default len is size_hint().0 (checked equal to the upper bound)",
}


def analyse_x(ctx, cfg, key, it):
    """Like analyse(), and every return path has its own return block."""
    db = ctx.db(cfg)
    b = db.get(key)
    if b is None:
        return None, None
    return b, ctx.analysis_inl(cfg, key, it.inv_facts(False), split=True, keep=(K["next"], K["next_back"]), tag="inv0")


def acyclic_paths(an, target, limit=400):
    """All loop-free paths (lists of blocks) from the entry block to `target` over normal edges; None if there are too many."""
    out = []
    stack = [(0, (0,))]
    while stack:
        bb, path = stack.pop()
        if bb == target:
            out.append(list(path))
            if len(out) > limit:
                return None
            continue
        for s in an.edges.get(bb, []):
            if an.blocks[s]["cleanup"] or s in path:
                continue
            stack.append((s, path + (s,)))
    return out


def has_cycle(an):
    """A normal-edge cycle among reachable blocks."""
    color = {}

    def visit(b):
        color[b] = 1
        for s in an.edges.get(b, []):
            if an.blocks[s]["cleanup"]:
                continue
            if color.get(s) == 1:
                return True
            if s not in color and visit(s):
                return True
        color[b] = 2
        return False
    return visit(0)


NONE = ("A", ("adt", "core::option::Option", 0), ())


def no_drop_glue(an, facts):
    """The path runs under needs_drop::<T>() == false for the element type: destroying an element is a no-op there."""
    T = tstr([x for x in an.body["impl_self"]["args"] if x.get("k") != "region"][0])
    return any(f[0] == "b" and f[1][0] == "needs_drop" and f[1][1] == T and f[2] is False for f in facts)


def nth_path_spec(an, it, name, path, r):
    """Decide one return path of nth / nth_back against the deque specification.  Returns (status, detail)."""
    from ..rules import tiling, is_view, is_panic_plumbing
    from ..poly import mk_min
    N, S = NS(an)
    lo, hi = it.entry(an, False)
    n = Poly.atom(("arg", 2))
    base = ("arg", 1)
    front = name == "nth"
    tailk = K["next"] if front else K["next_back"]
    cur = {it.i0: lo, it.i1: hi}
    D = []
    facts = set(r["facts"])
    deleg = None
    post = False
    reads = []
    sts = {s["site"]: s for s in stores_to(an, it, base)}
    inpath = set(path)
    events = []
    for site, s in sts.items():
        if site[0] in inpath:
            events.append((path.index(site[0]), 0, site[1], "store", s))
    for c in an.calls:
        if c.bb in inpath:
            events.append((path.index(c.bb), 1, 0, "call", c))
    events.sort(key=lambda e: e[:3])
    for _, _, _, kind, e in events:
        if kind == "store":
            facts |= set(e["facts"])
            if e["val"][0] != "I":
                return UNKNOWN, "non-integer store to an index field"
            cur[e["cell"][1][0]] = e["val"][1]
            post = post or deleg is not None
            continue
        c = e
        facts |= set(c.facts)
        if c.key == tailk:
            if deleg is not None or not (c.args[0][0] == "P" and c.args[0][1] == base and not c.args[0][2].t):
                return UNKNOWN, "more than one delegation on a path, or delegation on something other than self"
            deleg = (c, dict(cur), list(D))
        elif c.fn == "core::ptr::drop_in_place":
            p = c.args[0]
            if not (p[0] == "P" and p[1] == ("field", base, (it.ia,))):
                return REFUTED, "drop_in_place of something other than the iterator's own slots: %s" % vstr(p)
            cnt = p[3] if p[3] is not None else Poly.const(1)
            D.append((p[2], cnt * S))
            post = post or deleg is not None
        elif c.fn == "core::ptr::read" and c.args[0][0] == "P" and c.args[0][1] == ("field", base, (it.ia,)):
            reads.append(c)
            post = post or deleg is not None
        elif is_view(c) or is_panic_plumbing(c) or an.is_pure(c) or c.key in (K["len"],) or getattr(c, "no_effects", False):
            continue
        elif c.fn == "core::mem::replace" and any(s_["site"][0] == c.bb and s_["site"][1] == 10 ** 6 for s_ in sts.values()):
            continue   # its store to an index field is on the path as a store event (the old value it returns is the value read before)
        elif c.key in (K["next"], K["next_back"]):
            return REFUTED, "delegates to %s in %s" % (c.key.split("::")[-1], name)
        else:
            return UNKNOWN, "call outside the recognised vocabulary on this path: %s" % c.fn
    fs = frozenset(facts)
    pf = an.poly_facts(fs)
    ln = hi - lo

    nodrop = no_drop_glue(an, fs)

    def tiles(dl, start, count):
        if nodrop:
            # no destructor to run: what matters is that nothing outside the skipped range is destroyed
            ok_in = all(prove((">=", o - start * S), pf) and prove((">=", (start + count) * S - o - z), pf) for o, z in dl)
            return ok_in, "element type has no drop glue on this path (needs_drop == false): destroyed ranges, if any, lie inside the skipped range: %s" % ok_in
        if not dl:
            return prove(("==", count), pf), "nothing dropped, required count %r == 0" % (count,)
        st, det = tiling(an, [(o - start * S, z) for o, z in dl], count * S, fs)
        return st == PROVED, det
    rv = r["val"]
    m = mk_min(n, ln)
    if deleg is not None and rv == deleg[0].ret and not post:
        c, pre, dl = deleg
        if front:
            okf = prove(("==", pre[it.i0] - lo - m), pf) and prove(("==", pre[it.i1] - hi), pf)
            okd, dd = tiles(dl, lo, m)
            spec = "before next(): index = index0 + m, index_back unchanged, dropped exactly [index0, index0+m)  (m = min(n, len))"
        else:
            okf = prove(("==", pre[it.i1] - hi + m), pf) and prove(("==", pre[it.i0] - lo), pf)
            okd, dd = tiles(dl, hi - m, m)
            spec = "before next_back(): index_back = back0 - m, index unchanged, dropped exactly [back0-m, back0)  (m = min(n, len))"
        return (PROVED if okf and okd else REFUTED), "delegating path: %s: fields %s, drops %s (%s)" % (spec, okf, okd, dd)
    if rv == NONE and deleg is None:
        oke = prove((">=", n - ln), pf)
        okf = prove(("==", cur[it.i0] - cur[it.i1]), pf)
        okd, dd = tiles(D, lo, ln)
        return (PROVED if oke and okf and okd else REFUTED), "exhausting path returning None: only when n >= len: %s; iterator left empty: %s; dropped exactly the live range: %s (%s)" % (oke, okf, okd, dd)
    if rv[0] == "A" and rv[1] == ("adt", "core::option::Option", 1) and deleg is None and len(reads) == 1 and rv[2] == (reads[0].ret,):
        rd = reads[0]
        okg = prove((">=", ln - n - 1), pf)
        if front:
            oks = prove(("==", rd.args[0][2] - (lo + n) * S), pf)
            okf = prove(("==", cur[it.i0] - lo - n - 1), pf) and prove(("==", cur[it.i1] - hi), pf)
            okd, dd = tiles(D, lo, n)
        else:
            oks = prove(("==", rd.args[0][2] - (hi - n - 1) * S), pf)
            okf = prove(("==", cur[it.i1] - hi + n + 1), pf) and prove(("==", cur[it.i0] - lo), pf)
            okd, dd = tiles(D, hi - n, n)
        return (PROVED if okg and oks and okf and okd else REFUTED), "direct path returning Some: only when n < len: %s; the slot read is element n from this end: %s; fields: %s; skipped elements dropped: %s (%s)" % (okg, oks, okf, okd, dd)
    return UNKNOWN, "return value %s is neither the delegation's result, None, nor Some(slot read)" % vstr(rv)


def ownership_path(an, it, name, path, r, byval=False, forgotten=False):
    """Ownership reading of one return path of a `&mut self` iterator method (used by C03.I): the elements the iterator claimed at entry,
    [index0, back0), are - at the delegation to next()/next_back() or at the return - exactly partitioned into the ranges destroyed in place,
    the slots moved out (and handed to the caller), and the range the iterator still claims."""
    from ..rules import tiling, is_view, is_panic_plumbing
    N, S = NS(an)
    lo, hi = it.entry(an, byval)
    base = ("local", 1) if byval else ("arg", 1)
    cur = {it.i0: lo, it.i1: hi}
    pieces = []
    facts = set(r["facts"])
    deleg = None
    reads = []
    sts = {s_["site"]: s_ for s_ in stores_to(an, it, base)}
    inpath = set(path)
    events = []
    for site, s_ in sts.items():
        if site[0] in inpath:
            events.append((path.index(site[0]), 0, site[1], "store", s_))
    for c in an.calls:
        if c.bb in inpath:
            events.append((path.index(c.bb), 1, 0, "call", c))
    events.sort(key=lambda e: e[:3])
    for _, _, _, kind, e in events:
        if deleg is not None and (kind == "store" or e.fn in ("core::ptr::drop_in_place", "core::ptr::read")):
            return REFUTED, "the iterator's storage or indices are touched again after delegating to %s" % deleg.key.split("::")[-1]
        if kind == "store":
            facts |= set(e["facts"])
            if e["val"][0] != "I":
                return UNKNOWN, "non-integer store to an index field"
            cur[e["cell"][1][0]] = e["val"][1]
            continue
        c = e
        facts |= set(c.facts)
        if c.key in (K["next"], K["next_back"]) and c.key != K.get(name):
            if deleg is not None or not (c.args[0][0] == "P" and c.args[0][1] == base and not c.args[0][2].t):
                return UNKNOWN, "more than one delegation on a path, or delegation on something other than self"
            deleg = c
        elif c.fn == "core::ptr::drop_in_place":
            p = c.args[0]
            if not (p[0] == "P" and p[1] == ("field", base, (it.ia,))):
                return REFUTED, "drop_in_place of something other than the iterator's own slots: %s" % vstr(p)
            pieces.append((p[2], (p[3] if p[3] is not None else Poly.const(1)) * S))
        elif c.fn == "core::ptr::read" and c.args[0][0] == "P" and c.args[0][1] == ("field", base, (it.ia,)):
            reads.append(c)
            pieces.append((c.args[0][2], S))
        elif is_view(c) or is_panic_plumbing(c) or an.is_pure(c) or c.key in (K["len"],) or getattr(c, "no_effects", False):
            continue
        elif c.fn == "core::mem::replace" and any(s_["site"][0] == c.bb and s_["site"][1] == 10 ** 6 for s_ in sts.values()):
            continue   # its store to an index field is on the path as a store event (the old value it returns is the value read before)
        else:
            return UNKNOWN, "call outside the recognised vocabulary on this path: %s" % c.fn
    fs = frozenset(facts)
    pf = an.poly_facts(fs)
    # values moved out must reach the caller
    rv = r["val"]
    for rd in reads:
        if not find_in(rv, lambda t: t == rd.ret):
            return REFUTED, "a slot is moved out (ptr::read) but the value does not reach the return value"
    if deleg is not None and rv != deleg.ret:
        return REFUTED, "the delegation's result is not what is returned"
    claimed = (cur[it.i0] * S, (cur[it.i1] - cur[it.i0]) * S)
    if forgotten:
        # by-value method that forgets self: nothing is claimed any more - what was not destroyed or moved out is leaked,
        # what was destroyed or moved out must not overlap
        claimed = (cur[it.i0] * S, Poly.const(0))
    if no_drop_glue(an, fs):
        # nothing needs destroying: the still-claimed range must stay inside the entry range and exclude every moved-out / destroyed piece
        ok = prove((">=", cur[it.i0] - lo), pf) and prove((">=", hi - cur[it.i1]), pf) and prove((">=", cur[it.i1] - cur[it.i0]), pf)
        for o, z in pieces:
            ok = ok and prove((">=", o - lo * S), pf) and prove((">=", hi * S - o - z), pf) and (prove((">=", cur[it.i0] * S - o - z), pf) or prove((">=", o - cur[it.i1] * S), pf))
        return (PROVED if ok else REFUTED), "no drop glue on this path (needs_drop == false): claimed range [%r, %r) within the entry range and disjoint from the %d moved-out/destroyed piece(s): %s" % (cur[it.i0], cur[it.i1], len(pieces), ok)
    allp = [(o - lo * S, z) for o, z in pieces + [claimed]]
    # empty pieces may sit anywhere: drop those that are provably empty
    allp = [q for q in allp if not prove(("==", q[1]), pf)]
    if not allp:
        ok = prove(("==", hi - lo), pf)
        return (PROVED if ok else REFUTED), "nothing destroyed, moved out or still claimed: requires an empty iterator: %s" % ok
    st, det = tiling(an, allp, (hi - lo) * S, fs)
    return st, "destroyed %d range(s), moved out %d slot(s), still claimed [%r, %r)%s: %s" % (len(pieces) - len(reads), len(reads), cur[it.i0], cur[it.i1], " at the delegation" if deleg is not None else "", det)


def check_ownership(ctx, cfg, it, name, rule="C03.I"):
    """C03.I for one `&mut self` method of the by-value iterator (private helpers inlined, one verdict per return path)."""
    b, an = analyse_x(ctx, cfg, K[name], it)
    if b is None:
        if name in DEFAULTED_OK:
            ctx.ob(rule, K[name], PROVED, "no override: %s" % DEFAULTED_OK[name], cfg=cfg)
        else:
            ctx.ob(rule, K[name], MISSING, "method not found", cfg=cfg)
        return
    if has_cycle(an):
        ctx.ob(rule, K[name], UNKNOWN, "the body contains a loop: outside the path-enumeration argument", at=b["at"], cfg=cfg)
        return
    bad, dets, n_paths = [], [], 0
    for r in an.returns:
        ps = acyclic_paths(an, r["bb"])
        if ps is None:
            bad.append((UNKNOWN, "too many paths"))
            continue
        for p in ps:
            n_paths += 1
            st, det = ownership_path(an, it, name, p, r)
            dets.append(det)
            if st != PROVED:
                bad.append((st, det))
    if not an.returns:
        bad.append((UNKNOWN, "no return path"))
    if bad:
        st = REFUTED if any(x[0] == REFUTED for x in bad) else UNKNOWN
        det = "; ".join(sorted({x[1] for x in bad}))
    else:
        st, det = PROVED, "%d return path(s); on each, the entry range [index, index_back) is exactly partitioned: %s" % (n_paths, " | ".join(sorted(set(dets))))
    ctx.ob(rule, K[name], st, det[:1500], at=b["at"], cfg=cfg)
    ctx.sample({"rule": rule, "method": name, "cfg": cfg, "detail": det[:600]})


def check_other_cursor_moves(ctx, cfg, it, rule="C06.E"):
    """Every exported method of the by-value iterator that is not one of the methods judged by name, and that stores to `index` / `index_back`
    (a new inherent method, an overridden provided method), is judged by the same ownership reading: on each return path the range claimed at
    entry is exactly partitioned into what was destroyed, what was moved out (and returned) and what is still claimed. Moving a cursor forward
    without moving or destroying the element leaks it; moving it back makes the iterator claim an element it already gave away."""
    judged = set(K.values())
    n = 0
    for b, byval in iter_entry_points(ctx, cfg, it):
        if b["key"] in judged or b["key"].endswith(" as core::ops::Drop>::drop"):
            continue
        an = ctx.analysis_inl(cfg, b["key"], it.inv_facts(byval), split=True, keep=(K["next"], K["next_back"]), tag="inv%dx" % byval)
        base = ("local", 1) if byval else ("arg", 1)
        if not stores_to(an, it, base):
            continue
        n += 1
        if an.unknown:
            ctx.ob(rule, b["key"], UNKNOWN, "analysis incomplete: %s" % (an.unknown[:2],), at=b["at"], cfg=cfg)
            continue
        if has_cycle(an):
            ctx.ob(rule, b["key"], UNKNOWN, "a method that stores to the iterator's cursors inside a loop: outside the path-enumeration argument", at=b["at"], cfg=cfg)
            continue
        bad, dets = [], []
        for r in an.returns:
            ps = acyclic_paths(an, r["bb"])
            if ps is None:
                bad.append((UNKNOWN, "too many paths"))
                continue
            for p_ in ps:
                st, det = ownership_path(an, it, None, p_, r, byval=byval)
                dets.append(det)
                if st != PROVED:
                    bad.append((st, det))
        if bad:
            st = REFUTED if any(x[0] == REFUTED for x in bad) else UNKNOWN
            det = "; ".join(sorted({x[1] for x in bad}))
        else:
            st, det = PROVED, "on each return path the entry range [index, index_back) is exactly partitioned: %s" % " | ".join(sorted(set(dets)))
        ctx.ob(rule, b["key"], st, ("a method outside the judged set stores to the iterator's cursors: " + det)[:1200], at=b["at"], cfg=cfg)
    return n


def check_nth(ctx, cfg, it, name):
    rule = "C06.S"
    b, an = analyse_x(ctx, cfg, K[name], it)
    if b is None:
        ctx.ob(rule, K[name], PROVED, "no override: %s" % DEFAULTED_OK[name], cfg=cfg)
        return
    base = ("arg", 1)
    if has_cycle(an):
        ctx.ob(rule, K[name], UNKNOWN, "the body contains a loop: outside the path-enumeration argument (each return path is checked against the deque specification)", at=b["at"], cfg=cfg)
        return
    n_paths = 0
    bad = []
    dets = []
    for r in an.returns:
        ps = acyclic_paths(an, r["bb"])
        if ps is None:
            bad.append((UNKNOWN, "too many paths"))
            continue
        for p in ps:
            n_paths += 1
            st, det = nth_path_spec(an, it, name, p, r)
            dets.append(det)
            if st != PROVED:
                bad.append((st, det))
    if not an.returns:
        bad.append((UNKNOWN, "no return path"))
    if bad:
        st = REFUTED if any(x[0] == REFUTED for x in bad) else UNKNOWN
        det = "; ".join(sorted({x[1] for x in bad}))
    else:
        st, det = PROVED, "%d return path(s), helpers inlined: %s; each path: %s" % (n_paths, [x["callee"].split("::")[-1] for x in an.body.get("inlined", [])], " | ".join(sorted(set(dets))))
    ctx.ob(rule, K[name], st, det[:1500], at=b["at"], cfg=cfg)
    ctx.sample({"rule": rule, "method": name, "cfg": cfg, "detail": det[:600]})
    check_invariant_preserved(ctx, cfg, name, b, an, it, base)


def check_simple(ctx, cfg, it):
    rule = "C06.S"
    # size_hint
    b, an = analyse(ctx, cfg, K["size_hint"], it)
    if b is None:
        ctx.ob(rule, K["size_hint"], MISSING, "method not found", cfg=cfg)
    else:
        lo, hi = it.entry(an, False)
        ln = ("I", hi - lo)
        want = ("A", "tuple", (ln, ("A", ("adt", "core::option::Option", 1), (ln,))))
        ok = bool(an.returns) and all(r["val"] == want for r in an.returns) and not stores_to(an, it, ("arg", 1))
        ctx.ob(rule, K["size_hint"], ok, "returns %s; spec (len, Some(len)) with len = index_back - index" % ", ".join(vstr(r["val"]) for r in an.returns), at=b["at"], cfg=cfg)
    # count (by value)
    b, an = analyse(ctx, cfg, K["count"], it, True)
    if b is None:
        ctx.ob(rule, K["count"], PROVED, "no override: %s" % DEFAULTED_OK["count"], cfg=cfg)
    else:
        lo, hi = it.entry(an, True)
        ok = bool(an.returns) and all(r["val"] == ("I", hi - lo) for r in an.returns)
        ctx.ob(rule, K["count"], ok, "returns %s; spec index_back - index" % ", ".join(vstr(r["val"]) for r in an.returns), at=b["at"], cfg=cfg)
    # last
    b, an = analyse(ctx, cfg, K["last"], it, True)
    if b is None:
        ctx.ob(rule, K["last"], PROVED, "no override: %s" % DEFAULTED_OK["last"], cfg=cfg)
    else:
        cs = [c for c in an.calls if c.key == K["next_back"]]
        ok = len(cs) == 1 and len(payload_calls(an)) == 1 and cs[0].args[0][0] == "P" and cs[0].args[0][1] == ("local", 1) and all(r["val"] == cs[0].ret for r in an.returns)
        det = "last() = next_back() on self, result returned, then self dropped"
        if not ok:
            # written out: per return path of the tree-shaped body (invariant at entry) - None only for an empty iterator, otherwise Some of the
            # element read from slot index_back - 1 (the last live one); `self` (all the rest) is dropped on the way out (C05.V: once, last)
            at = ctx.analysis_inl(cfg, K["last"], it.inv_facts(True), split=True, tag="inv1")
            if at is not None and at.returns and not has_cycle(at):
                N, S = NS(at)
                lo, hi = it.entry(at, True)
                okp = True
                for r in at.returns:
                    pf = at.poly_facts(r["facts"])
                    v = r["val"]
                    if v[0] == "A" and isinstance(v[1], tuple) and v[1][:2] == ("adt", "core::option::Option") and v[1][2] == 0:
                        okp = okp and prove(("==", hi - lo), pf)
                    elif v[0] == "A" and isinstance(v[1], tuple) and v[1][:2] == ("adt", "core::option::Option") and v[1][2] == 1:
                        rd = [c for c in at.calls if c.fn == "core::ptr::read" and c.ret == v[2][0] and c.args[0][0] == "P" and c.args[0][1] == ("field", ("local", 1), (it.ia,))]
                        okp = okp and len(rd) >= 1 and all(prove(("==", c.args[0][2] - (hi - Poly.const(1)) * S), pf) for c in rd) and prove((">=", hi - lo - 1), pf)
                    else:
                        okp = False
                    okp = okp and any(d["place"]["l"] == 1 and not d["place"]["p"] and not d["cleanup"] for d in at.drops)
                ok = okp
                det = "last() written out: None only when nothing is left, otherwise Some(the element read from slot index_back - 1), self dropped afterwards: %s" % ok
        ctx.ob(rule, K["last"], ok, det, at=b["at"], cfg=cfg)
    # Debug
    b, an = analyse(ctx, cfg, K["debug"], it)
    if b is None:
        ctx.ob(rule, K["debug"], MISSING, "method not found", cfg=cfg)
    else:
        N, S = NS(an)
        lo, hi = it.entry(an, False)
        pc = payload_calls(an)
        names = [c.fn.split("::")[-1] for c in pc]
        asl = [c for c in an.calls if c.key == K["as_slice"]]
        fld = [c for c in pc if c.fn.endswith("::field")]
        ok = names == ["debug_tuple", "as_slice", "field", "finish"] or sorted(names) == sorted(["debug_tuple", "as_slice", "field", "finish"])
        view_ok = len(asl) == 1 and asl[0].ret[0] == "P" and peq(an, asl[0].facts, asl[0].ret[2], lo * S) and peq(an, asl[0].facts, asl[0].ret[3], hi - lo)
        passed = False
        if len(fld) == 1 and fld[0].args[1][0] == "P":
            held = fld[0].mem.get((fld[0].args[1][1], ()))
            passed = held == asl[0].ret if asl else False
        ctx.ob(rule, K["debug"], ok and view_ok and passed, "Debug = debug_tuple(..).field(&as_slice()).finish(); calls %s; the field shown is the [index, index_back) view: %s" % (names, view_ok and passed), at=b["at"], cfg=cfg)
    # into_iter
    b = ctx.body(cfg, K["into_iter"], rule)
    if b is not None:
        an = ctx.analysis(cfg, K["into_iter"])
        targs = [x for x in b["impl_self"]["args"] if x.get("k") != "region"]
        N = an.tenv.length(targs[-1])
        want_ops = {it.ia: ("V", "arg", 1), it.i0: ("I", Poly.const(0)), it.i1: ("I", N)}
        ok = bool(an.returns) and all(r["val"][0] == "A" and r["val"][1] == ("adt", it.path, 0) and all(r["val"][2][i] == v for i, v in want_ops.items()) for r in an.returns)
        ctx.ob("C06.I", K["into_iter"], ok, "into_iter builds {array: self, index: 0, index_back: N}: %s" % ", ".join(vstr(r["val"]) for r in an.returns), at=b["at"], cfg=cfg)


def fold_by_next_loop(an, name):
    """fold / rfold written the way core's defaults are: acc = init; while let Some(x) = self.next() { acc = f(acc, x) } acc
    (next_back for rfold).  Safe code over the iterator's own next(): the queue behaviour is inherited from next() (C06.S)."""
    from ..loops import method_loops
    from ..absint import State
    want = K["next"] if name == "fold" else K["next_back"]
    other = K["next_back"] if name == "fold" else K["next"]
    lps = method_loops(an, (want, other))
    if len(lps) != 1 or lps[0].nxt.key != want:
        return False, "neither a std fold driver nor exactly one loop over self.%s() found" % want.split("::")[-1]
    lp = lps[0]
    recv = lp.nxt.args[0]
    self_ok = recv[0] == "P" and recv[1] == ("local", 1) and not recv[2].t
    fcalls = [c for c in lp.calls() if c.fn == "core::ops::FnMut::call_mut"]
    once = lp.count_on_paths(lambda c: c.fn == "core::ops::FnMut::call_mut") == {1}
    others = [c.fn for c in lp.calls() if c not in fcalls and not is_panic(c) and not an.is_pure(c) and not getattr(c, "no_effects", False)]
    args_ok = init_ok = ret_ok = False
    if len(fcalls) == 1:
        fc = fcalls[0]
        accs = [s_ for s_ in an.assigns if s_["val"] == fc.ret and s_["cell"][0][0] == "local"]
        dest = (("local", fc.term["dest"]["l"]), ()) if not fc.term["dest"]["p"] else None
        cells = {s_["cell"] for s_ in accs} | ({dest} if dest else set())
        head = State(lp.nxt.mem, lp.nxt.facts)
        for cell in cells:
            at_head = an.read_cell(head, cell[0], cell[1], None)
            if fc.args[1] == ("A", "tuple", (at_head, lp.payload)):
                args_ok = True
                ret_ok = bool(an.returns) and all(r["val"] == at_head and ("variant", lp.nxt.ret, 0) in r["facts"] for r in an.returns)
                init_ok = any(s_["cell"] == cell and s_["val"] == ("V", "arg", 2) and an.dominates(s_["site"][0], lp.nxt.bb) for s_ in an.assigns)
    ok = self_ok and once and args_ok and init_ok and ret_ok and not lp.breaks and not others
    return ok, ("loop over self.%s(): %s; left only when it returns None: %s; each step calls f exactly once: %s with (accumulator, the yielded value): %s; no other effectful call in the step: %s; accumulator starts as init: %s and is returned after the None: %s"
                % (want.split("::")[-1], self_ok, not lp.breaks, once, args_ok, not others, init_ok, ret_ok))


def fold_by_cursor_loop(an, it, name):
    """fold / rfold written as a loop over the iterator's own cursors with its primitive inlined:
        while self.index < self.index_back { self.index_back -= 1; let v = read(slot index_back); acc = f(acc, v) }      (rfold)
        while self.index < self.index_back { let v = read(slot index); self.index += 1; acc = f(acc, v) }                (fold)
    One cycle; per iteration exactly one cursor store (the step of next_back / next), exactly one raw read - of the slot that step gives up,
    made before f runs - exactly one call f(acc, that value) whose result becomes the accumulator; the loop is left only when the claimed
    range is empty, and the accumulator is what is returned. By induction the calls are f(.., a[back-1]), f(.., a[back-2]), .. (resp. ascending
    from index): the sequence of next_back() / next() values."""
    from ..absint import State
    N, S = NS(an)
    lo, hi = it.entry(an, True)
    base = ("local", 1)
    cyc = {bb for bb in an.edges if not an.blocks[bb]["cleanup"] and any(an.reaches(s_, bb) for s_ in an.edges.get(bb, []) if not an.blocks[s_]["cleanup"])}
    if not cyc:
        return False, "no loop"
    fcs = [c for c in an.calls if c.fn == "core::ops::FnMut::call_mut" and c.bb in cyc]
    rds = [c for c in an.calls if c.fn in ("core::ptr::read", "core::ptr::read_unaligned") and c.bb in cyc]
    sts = [s_ for s_ in stores_to(an, it, base) if s_["site"][0] in cyc]
    outside = [s_ for s_ in stores_to(an, it, base) if s_["site"][0] not in cyc]
    if len(fcs) != 1 or len(rds) != 1 or len(sts) != 1 or outside:
        return False, "cursor loop: expected one f call, one raw read and one cursor store per iteration (and none outside): %d / %d / %d / %d" % (len(fcs), len(rds), len(sts), len(outside))
    fc, rd, st = fcs[0], rds[0], sts[0]
    # a simple cycle: every block of the loop has exactly one successor inside it (one path per iteration)
    simple = all(len([s_ for s_ in an.edges.get(bb, []) if s_ in cyc]) == 1 for bb in cyc)
    fld = it.i1 if name == "rfold" else it.i0
    cur = None
    for at_ in st["val"][1].atoms() if st["val"][0] == "I" else ():
        if isinstance(at_, tuple) and at_[0] == "phi" and at_[2] == (base, (fld,)):
            cur = at_
    if cur is None or st["cell"][1] != (fld,):
        return False, "cursor loop: the store in the loop is not a step of `%s`" % ("index_back" if name == "rfold" else "index")
    P = Poly.atom(cur)
    step_ok = st["val"][1] == (P - Poly.const(1) if name == "rfold" else P + Poly.const(1))
    slot = (P - Poly.const(1)) if name == "rfold" else P
    p_ = rd.args[0]
    pf = an.poly_facts(fc.facts)
    slot_ok = p_[0] == "P" and p_[1] == ("field", base, (it.ia,)) and prove(("==", p_[2] - slot * S), pf)
    # the other cursor is the entry value throughout; the loop runs only while the claimed range is not empty
    other = an.read_cell(State(fc.mem, fc.facts), base, ((it.i0 if name == "rfold" else it.i1),), {"k": "prim", "n": "usize"})
    other_ok = other[0] == "I" and other[1] == (lo if name == "rfold" else hi)
    guard = prove((">=", (P - lo - Poly.const(1)) if name == "rfold" else (hi - P - Poly.const(1))), pf)
    # exclusion before the call: at f the cursor already has its new value
    now = an.read_cell(State(fc.mem, fc.facts), base, (fld,), {"k": "prim", "n": "usize"})
    excl = now[0] == "I" and now == st["val"] and an.reaches(rd.bb, fc.bb)
    # accumulator threading
    args_ok = init_ok = ret_ok = False
    accs = [s_ for s_ in an.assigns if s_["val"] == fc.ret and s_["cell"][0][0] == "local" and s_["site"][0] in cyc]
    dest = (("local", fc.term["dest"]["l"]), ()) if not fc.term["dest"]["p"] else None
    for cell in {s_["cell"] for s_ in accs} | ({dest} if dest else set()):
        a_head = fc.args[1][2][0] if fc.args[1][0] == "A" and len(fc.args[1][2]) == 2 else None
        if a_head is not None and isinstance(a_head, tuple) and a_head[:2] == ("V", "phi") and a_head[2][2] == cell and fc.args[1] == ("A", "tuple", (a_head, rd.ret)):
            args_ok = True
            init_ok = any(s_["cell"] == cell and s_["val"] == ("V", "arg", 2) and s_["site"][0] not in cyc for s_ in an.assigns)
            ret_ok = bool(an.returns) and all(r["val"] == a_head for r in an.returns)
    # left only when nothing is claimed any more
    empty = bool(an.returns) and all(prove(("==", (P - lo) if name == "rfold" else (hi - P)), an.poly_facts(r["facts"])) for r in an.returns)
    others = [c.fn for c in an.calls if c.bb in cyc and c not in (fc, rd) and not is_panic(c) and not an.is_pure(c) and not getattr(c, "no_effects", False)]
    ok = bool(simple and step_ok and slot_ok and other_ok and guard and excl and args_ok and init_ok and ret_ok and empty and not others)
    return ok, ("%s as a loop over the iterator's own cursors (its %s inlined): one path per iteration: %s; the step moves the cursor by one: %s; the slot read is the one that step gives up: %s, "
                "read before f and already excluded when f runs: %s; runs only while the range is not empty: %s/%s; f(acc, value) once, its result the new accumulator, init first, the accumulator returned: %s/%s/%s; "
                "left only with nothing claimed: %s; no other effectful call in the loop: %s" % (
                    name, "next_back" if name == "rfold" else "next", simple, step_ok, slot_ok, excl, guard, other_ok, args_ok, init_ok, ret_ok, empty, not others))


def is_panic(c):
    from ..rules import is_panic_plumbing
    return is_panic_plumbing(c)


def provided_try_fold(db, an, name):
    """(call, closure analysis) if the body folds through the provided `try_fold` (for fold) / `try_rfold` (for rfold) on `self`, never breaking."""
    from ..ownership import never_breaks
    want = "core::iter::Iterator::try_fold" if name == "fold" else "core::iter::DoubleEndedIterator::try_rfold"
    over = "<GenericArrayIter<$0,$1> as core::iter::Iterator>::try_fold" if name == "fold" else "<GenericArrayIter<$0,$1> as core::iter::DoubleEndedIterator>::try_rfold"
    if db.get(over) is not None:
        return None   # overridden: not std's loop over next()
    ds = [c for c in an.calls if c.fn == want]
    if len(ds) != 1 or not never_breaks(ds[0]) or ds[0].res not in (want, ""):
        return None
    d = ds[0]
    recv = d.args[0]
    if not (recv[0] == "P" and recv[1] == ("local", 1) and not recv[2].t):
        return None
    cv = d.args[2]
    if not (cv[0] == "A" and isinstance(cv[1], tuple) and cv[1][0] == "closure"):
        return None
    cb = db.by_path.get(cv[1][1])
    if cb is None:
        return None
    from ..absint import analyze
    return d, analyze(db, cb)


def check_folds(ctx, cfg, it, name):
    rule = "C06.S"
    b, an = analyse(ctx, cfg, K[name], it, True)
    if b is None:
        ctx.ob(rule, K[name], PROVED, "no override: %s" % DEFAULTED_OK[name], cfg=cfg)
        return
    db = ctx.db(cfg)
    N, S = NS(an)
    lo, hi = it.entry(an, True)
    want_fn = "core::iter::Iterator::fold" if name == "fold" else "core::iter::DoubleEndedIterator::rfold"
    drv = [c for c in an.calls if c.fn in ("core::iter::Iterator::fold", "core::iter::DoubleEndedIterator::rfold", "core::iter::Iterator::for_each", "core::iter::Iterator::try_fold")]
    ok = len(drv) == 1 and drv[0].fn == want_fn
    det = "expected exactly one %s over the live range; found %s" % (want_fn, [c.fn for c in drv])
    prov = provided_try_fold(db, an, name)
    if prov is not None:
        # `self.try_fold(init, |acc, x| Ok::<_, Infallible>(f(acc, x)))` through the PROVIDED try_fold / try_rfold (the iterator does not override
        # it): std's body is `while let Some(x) = self.next() { acc = g(acc, x)? }`, so with a residual that cannot exist it is the loop
        # over the iterator's own next() / next_back() - each element moved out (and disowned) by that primitive before f sees it (C06.S next)
        d, ca = prov
        calls = [c for c in ca.calls if c.fn == "core::ops::FnMut::call_mut"]
        from .c08 import count_on_paths
        once = count_on_paths(ca, lambda c: c.fn == "core::ops::FnMut::call_mut") == {1} and len(calls) == 1
        argok = once and calls[0].args[1] == ("A", "tuple", (("V", "arg", 2), ("V", "arg", 3))) \
            and all(r["val"] == ("A", ("adt", "core::result::Result", 0), (calls[0].ret,)) for r in ca.returns)
        init_ok = d.args[1] == ("V", "arg", 2)
        others = [c.fn for c in an.calls if c is not d and c.fn.startswith("core::iter::") and c.fn.split("::")[-1] in ("fold", "rfold", "for_each", "try_fold", "try_rfold", "next", "next_back")]
        ret_ok = bool(an.returns) and all(repr(("ret", d.bb)) in repr(r["val"]) for r in an.returns)
        ok = bool(argok and init_ok and not others and ret_ok)
        det = "%s = the provided %s on self with an uninhabited residual (= the loop over self's own %s): init passed through: %s; closure = Ok(f(acc, value)) once: %s; its result returned: %s" % (
            name, d.fn.split("::")[-1], "next" if name == "fold" else "next_back", init_ok, argok, ret_ok)
    elif not drv:
        ok, det = fold_by_next_loop(an, name)
        if not ok:
            ok2, det2 = fold_by_cursor_loop(an, it, name)
            if ok2 or det2 != "no loop":
                ok, det = ok2, det2
    elif ok:
        d = drv[0]
        itv = d.args[0]
        shape = isinstance(itv, tuple) and len(itv) == 5 and itv[:3] == ("V", "iter", "slice")
        rng = shape and itv[3][1] == ("field", ("local", 1), (it.ia,)) and peq(an, d.facts, itv[3][2], lo * S) and peq(an, d.facts, itv[3][3], hi - lo)
        from ..ownership import range_driver, indexed_traversal
        by_index = range_driver(d) is not None
        if by_index:
            # the same traversal written over the index range index..index_back with `ptr::read(base.add(i))`: ascending for fold, descending for rfold
            shape = True
            rng = peq(an, d.facts, itv[2][0][1], lo) and peq(an, d.facts, itv[2][1][1], hi)
        init_ok = d.args[1] == ("V", "arg", 2)
        cv = d.args[2]
        cl_ok = False
        cdet = ""
        if cv[0] == "A" and isinstance(cv[1], tuple) and cv[1][0] == "closure":
            cb = db.by_path.get(cv[1][1])
            ca = ctx.analysis(cfg, cb["key"])
            role, cok, cdet, info = check_closure_protocol(ca, Classifier(db))
            # position upvar is the right index, moved in the right direction
            pos_field = it.i0 if name == "fold" else it.i1
            want_delta = 1 if name == "fold" else -1
            pos_ok = False
            for k in info["positions"]:
                op = cv[2][k]
                if op[0] == "P" and op[1] == ("field", ("local", 1), (pos_field,)):
                    pos_ok = True
            deltas = set()
            from ..typestate import closure_events
            for evs in closure_events(ca, Classifier(db)).values():
                for e in evs:
                    if e[2] == "inc":
                        deltas.add(e[3][1])
            # f is called with (acc, value) and its result returned
            calls = [c for c in ca.calls if c.fn == "core::ops::FnMut::call_mut"]
            reads = [c for c in ca.calls if c.fn == "core::ptr::read"]
            argok = len(calls) == 1 and len(reads) == 1 and calls[0].args[1] == ("A", "tuple", (("V", "arg", 2), reads[0].ret)) and all(r["val"] == calls[0].ret for r in ca.returns)
            if by_index:
                # slot i of THIS iterator's storage, and the cursor store fits the direction (absolute `i + 1` / `i`, or the relative step)
                bases, why = indexed_traversal(an, d, {"ops": cv[2]}, info, role, owner_adts(db))
                store = bases is not None and bool(bases) and all(bse == ("field", ("local", 1), (it.ia,)) for bse in bases)
                absd = {("abs", 1): 1, ("abs", 0): -1}
                deltas = {absd.get(x, x) for x in deltas}
                pos_ok = pos_ok and store
                if bases is None:
                    cdet = why
            cl_ok = cok and role == "consumer" and pos_ok and deltas == {want_delta} and argok
            cdet = (cdet + "; " if by_index and cdet and not cl_ok else "") + "closure: protocol ok %s, advances %s by %s, calls f(acc, value) once and returns its result: %s" % (cok, "index" if name == "fold" else "index_back", sorted(deltas, key=repr), argok)
        ret_ok = all(r["val"] == d.ret for r in an.returns)
        ok = shape and rng and init_ok and cl_ok and ret_ok
        det = "%s over %s [index, index_back): %s; init passed through: %s; %s; result returned: %s" % (want_fn.split("::")[-1], "the index range" if by_index else "slice iter of", bool(rng), init_ok, cdet, ret_ok)
    ctx.ob(rule, K[name], ok, det, at=b["at"], cfg=cfg)
    ctx.sample({"rule": rule, "method": name, "cfg": cfg, "detail": det})


def check_clone(ctx, cfg, it):
    rule = "C06.S"
    b, an = analyse(ctx, cfg, K["clone"], it)
    if b is None:
        ctx.ob(rule, K["clone"], MISSING, "method not found", cfg=cfg)
        return
    N, S = NS(an)
    lo, hi = it.entry(an, False)
    # new iterator local: an aggregate GenericArrayIter{array: bit copy, 0, 0}
    news = [g for g in an.aggregates if g["kind"] == ("adt", it.path, 0)]
    writes = [c for c in an.calls if c.fn == "core::ptr::write"]
    clones = [c for c in an.calls if c.fn == "core::clone::Clone::clone"]
    nexts = [c for c in an.calls if c.fn == "core::iter::Iterator::next" and c.ret[0] == "O"]
    ok = len(news) == 1 and len(writes) == 1 and len(clones) == 1 and len(nexts) == 1
    det = "expected one fresh iterator aggregate, one element clone and one write per loop iteration"
    if len(news) == 1 and len(writes) == 1 and len(clones) == 1 and not nexts:
        # form D: `while new.index_back < remaining.len() { write(new.storage[new.index_back], remaining[new.index_back].clone()); new.index_back += 1 }`
        # - the new iterator's own count is the loop counter: it starts at 0, each step clones element (index + count) of self into slot `count`
        # of the new storage and then counts it, and the loop can only be left when count >= len
        from ..absint import State
        g, wr, cl = news[0], writes[0], clones[0]
        init_ok = g["ops"][it.i0] == ("I", Poly.const(0)) and g["ops"][it.i1] == ("I", Poly.const(0))
        wp, sp = wr.args[0], cl.args[0]
        body_ok = dst_ok = src_ok = inc_ok = exit_ok = False
        newloc = None
        if wp[0] == "P" and wp[1][0] == "field" and wp[1][1][0] == "local" and wp[1][2] == (it.ia,):
            newloc = wp[1][1][1]
            cnt = an.read_cell(State(wr.mem, wr.facts), ("local", newloc), (it.i1,), {"k": "prim", "n": "usize"})
            if cnt[0] == "I":
                i_ = cnt[1]
                pfw = an.poly_facts(wr.facts)
                dst_ok = prove(("==", wp[2] - i_ * S), pfw)
                src_ok = sp[0] == "P" and sp[1] == ("field", ("arg", 1), (it.ia,)) and prove(("==", sp[2] - (lo + i_) * S), an.poly_facts(cl.facts)) \
                    and prove((">=", hi - lo - i_ - 1), an.poly_facts(cl.facts))
                body_ok = wr.args[1] == cl.ret and an.dominates(cl.bb, wr.bb)
                incs = [s_ for s_ in an.assigns if s_["cell"] == (("local", newloc), (it.i1,)) and an.reaches(s_["site"][0], cl.bb) and an.reaches(cl.bb, s_["site"][0])]
                inc_ok = len(incs) == 1 and incs[0]["val"][0] == "I" and incs[0]["val"][1] == i_ + Poly.const(1) and an.dominates(wr.bb, incs[0]["site"][0])
                loop = {x for x in range(len(an.blocks)) if an.reaches(x, cl.bb) and an.reaches(cl.bb, x)}
                exits = [(x, y) for x in loop for y in an.edges.get(x, []) if y not in loop and not an.blocks[y]["cleanup"]]
                exit_ok = len(exits) == 1 and all(any(prove((">=", i_ - (hi - lo)), an.poly_facts(fs_)) for fs_ in an.edge_facts.get(e_, [])) for e_ in exits)
        self_untouched = not stores_to(an, it, ("arg", 1))
        ret_ok = newloc is not None and all(r["val"][0] == "A" and r["val"][1] == ("adt", it.path, 0) and r["val"][2][it.i0] == ("I", Poly.const(0)) for r in an.returns)
        ok_d = bool(init_ok and dst_ok and src_ok and body_ok and inc_ok and exit_ok and self_untouched and ret_ok)
        ctx.ob(rule, K["clone"], ok_d, "fresh iterator starts (0, 0): %s; counting loop on the new iterator's own index_back: slot `count` of the new storage: %s <- clone of self[index + count] (count < len): %s, written after the clone: %s, then counted (+1): %s; left only when count >= len: %s; original untouched: %s; the new iterator (index 0) is returned: %s" % (
            init_ok, dst_ok, src_ok, body_ok, inc_ok, exit_ok, self_untouched, ret_ok), at=b["at"], cfg=cfg)
        return
    if ok:
        g = news[0]
        init_ok = g["ops"][it.i0] == ("I", Poly.const(0)) and g["ops"][it.i1] == ("I", Poly.const(0))
        nx = nexts[0]
        el = nx.ret[1]
        pair = el[0] == "A" and el[1] == "tuple" and len(el[2]) == 2
        # the zip term: destination = front of the new iterator's storage, source = [index, back) of self
        zt = None
        for c in an.calls:
            if c.fn == "core::iter::Iterator::zip":
                zt = c
        dst_ok = src_ok = False
        newloc = None
        if zt is not None:
            a0, a1 = zt.args[0], zt.args[1]
            if isinstance(a0, tuple) and a0[:3] == ("V", "iter", "slice"):
                p = a0[3]
                if p[1][0] == "field" and p[1][1][0] == "local" and p[1][2] == (it.ia,):
                    newloc = p[1][1][1]
                    dst_ok = peq(an, zt.facts, p[2], Poly.const(0)) and p[3] is not None and peq(an, zt.facts, p[3], N)
            src = a1[3] if (isinstance(a1, tuple) and a1[:3] == ("V", "iter", "slice")) else a1
            if src[0] == "P" and src[1] == ("field", ("arg", 1), (it.ia,)) and src[3] is not None:
                src_ok = peq(an, zt.facts, src[2], lo * S) and peq(an, zt.facts, src[3], hi - lo)
        wr, cl = writes[0], clones[0]
        if zt is None and not pair and el[0] == "P":
            # form B: `for src in self.as_slice() { write(new.storage.add(new.index_back), src.clone()); new.index_back += 1 }` - the destination slot
            # is named by the counter itself instead of being zipped in
            from ..loops import find_loops
            lps = [lp for lp in find_loops(an) if lp.nxt is nx]
            src = lps[0].pipe if lps else None
            src = src[3] if (isinstance(src, tuple) and src[:3] == ("V", "iter", "slice")) else src
            if src is not None and src[0] == "P" and src[1] == ("field", ("arg", 1), (it.ia,)) and src[3] is not None and lps and not lps[0].backward and not lps[0].breaks:
                src_ok = peq(an, nx.facts, src[2], lo * S) and peq(an, nx.facts, src[3], hi - lo)
            wp = wr.args[0]
            if wp[0] == "P" and wp[1][0] == "field" and wp[1][1][0] == "local" and wp[1][2] == (it.ia,):
                newloc = wp[1][1][1]
                incs_b = [s_ for s_ in an.assigns if s_["cell"] == (("local", newloc), (it.i1,))]
                if len(incs_b) == 1 and incs_b[0]["val"][0] == "I":
                    dst_ok = wp[2] == (incs_b[0]["val"][1] - Poly.const(1)) * S  # slot index == the count of clones written so far
            pair = True
            body_ok = cl.args[0] == el and wr.args[1] == cl.ret and dst_ok
        elif zt is None and pair and el[2][0][0] == "I" and el[2][1][0] == "P":
            # form C: `for (i, src) in self.as_slice().iter().enumerate() { write(new.storage.add(i), src.clone()); new.index_back = i + 1 }` - the
            # destination slot is named by the enumerate index (0, 1, 2 .. in step with the source) and the new count is stored absolutely
            from ..loops import find_loops
            lps = [lp for lp in find_loops(an) if lp.nxt is nx]
            pipe = lps[0].pipe if lps else None
            inner = pipe[3] if (isinstance(pipe, tuple) and len(pipe) == 4 and pipe[:3] == ("V", "iter", "enumerate")) else None
            src = inner[3] if (isinstance(inner, tuple) and inner[:3] == ("V", "iter", "slice")) else None
            if src is not None and src[0] == "P" and src[1] == ("field", ("arg", 1), (it.ia,)) and src[3] is not None and not lps[0].backward and not lps[0].breaks:
                src_ok = peq(an, nx.facts, src[2], lo * S) and peq(an, nx.facts, src[3], hi - lo)
            idx = el[2][0][1]
            wp = wr.args[0]
            if wp[0] == "P" and wp[1][0] == "field" and wp[1][1][0] == "local" and wp[1][2] == (it.ia,):
                newloc = wp[1][1][1]
                dst_ok = wp[2] == idx * S
            body_ok = cl.args[0] == el[2][1] and wr.args[1] == cl.ret and dst_ok
            form_c_idx = idx
        else:
            body_ok = pair and cl.args[0] == el[2][1] and wr.args[0] == el[2][0] and wr.args[1] == cl.ret
        # per iteration: index_back of the NEW iterator += 1, nothing else of it, nothing of self
        incs = [s for s in an.assigns if newloc is not None and s["cell"] == (("local", newloc), (it.i1,))]
        inc_ok = len(incs) == 1 and incs[0]["val"][0] == "I" and len((incs[0]["val"][1] - Poly.const(1)).atoms()) == 1 and an.dominates(wr.bb, incs[0]["site"][0])
        if "form_c_idx" in locals():
            inc_ok = inc_ok and incs[0]["val"][1] == form_c_idx + Poly.const(1)   # the count after the k-th clone is k + 1
        self_untouched = not stores_to(an, it, ("arg", 1))
        ret_ok = newloc is not None and all(r["val"][0] == "A" and r["val"][1] == ("adt", it.path, 0) and r["val"][2][it.i0] == ("I", Poly.const(0)) for r in an.returns)
        ok = init_ok and dst_ok and src_ok and body_ok and inc_ok and self_untouched and ret_ok
        det = "fresh iterator starts (0, 0): %s; destination = its storage from slot 0, slot k for the k-th item (zipped, or addressed by the new index_back): %s, source = self[index, index_back) in order: %s; per item: write(dst, clone(src)): %s then index_back += 1: %s; original untouched: %s; the new iterator (index 0) is returned: %s" % (
            init_ok, dst_ok, src_ok, body_ok, inc_ok, self_untouched, ret_ok)
    ctx.ob(rule, K["clone"], ok, det, at=b["at"], cfg=cfg)
    ctx.sample({"rule": rule, "method": "clone", "cfg": cfg, "detail": det})


def iter_entry_points(ctx, cfg, it):
    """(body, by-value receiver?) for every exported method whose Self type is the iterator (private helpers are judged inlined in their callers)."""
    db = ctx.db(cfg)
    out = []
    for b in db.bodies:
        if b["kind"] != "AssocFn" or "impl_self" not in b:
            continue
        st = b["impl_self"]
        if st.get("k") != "adt" or st["def"] != it.path or not (b.get("vis") or {}).get("exported", True):
            continue
        sig = b.get("sig")
        if not sig or not sig["inputs"]:
            continue
        first = sig["inputs"][0]
        if first.get("k") == "ref" and tstr(first["t"]) == tstr(st):
            out.append((b, False))
        elif tstr(first) == tstr(st):
            out.append((b, True))
    return out


def check_unchecked_bounds(ctx, cfg, it):
    rule = "C06.U"
    n = 0
    anchors = set()
    for b, byval in iter_entry_points(ctx, cfg, it):
        if b.get("impl_trait") == "core::ops::Drop":
            continue
        _, an = analyse(ctx, cfg, b["key"], it, byval)
        N, S = NS(an)
        k = 0
        for c in an.calls:
            if c.fn not in ("core::slice::<impl [T]>::get_unchecked", "core::slice::<impl [T]>::get_unchecked_mut"):
                continue
            if not (c.args[0][0] == "P" and isinstance(c.args[0][1], tuple) and c.args[0][1][0] == "field" and c.args[0][1][2] == (it.ia,)):
                continue  # not the iterator's own storage
            pf = an.poly_facts(c.facts)
            idx = c.args[1]
            rng = an.range_of(idx, c.args[0][3] if c.args[0][0] == "P" else None)
            if rng is not None and rng[1] is not None:
                ok = prove((">=", rng[0]), pf) and prove((">=", rng[1] - rng[0]), pf) and prove((">=", N - rng[1]), pf)
                det = "range [%r, %r) within [0, N] and ordered under the invariant: %s" % (rng[0], rng[1], ok)
            elif idx[0] == "I":
                ok = prove((">=", idx[1]), pf) and prove((">=", N - idx[1] - 1), pf)
                det = "index %r within [0, N) under the invariant and the guard: %s" % (idx[1], ok)
            else:
                ok, det = None, "index expression not understood: %s" % vstr(idx)
            ctx.ob(rule, "%s#get_unchecked#%d" % (b["key"], k), ok, det, at=c.at, cfg=cfg)
            k += 1
            n += 1
        if k:
            anchors.add(b["key"])
    # non-vacuity: the mandatory accessors still reach their storage through a recognised (checked) access
    from ..models import MODELS, verify_models
    for name in ("next", "next_back", "as_slice", "as_mut_slice"):
        if ctx.db(cfg).get(K[name]) is not None and K[name] not in anchors:
            if name in ("as_slice", "as_mut_slice") and K[name] in MODELS:
                # built without get_unchecked (e.g. from_raw_parts): the obligation is the extent of the returned view itself - exactly
                # [index, index_back) of the iterator's own storage, which lies within the array under the invariant
                verify_models(ctx, cfg, [K[name]], rule=rule)
                n += 1   # the accessor is accounted for (the floor counts accessors reached, whatever the access idiom)
                continue
            b, an = analyse(ctx, cfg, K[name], it, False)
            raw = [c for c in slot_reads(an, it, ("arg", 1))]
            ctx.ob(rule, "%s#access" % K[name], bool(raw), "no get_unchecked on the iterator's storage; raw slot reads (bounds-checked by C06.S): %d" % len(raw), at=b["at"], cfg=cfg)
            n += 1 if raw else 0
    return n


PLUMBING_FNS = ("core::ops::Deref::deref", "core::ops::DerefMut::deref_mut", "core::slice::<impl [T]>::get_unchecked", "core::slice::<impl [T]>::get_unchecked_mut",
                "core::ops::Index::index", "core::ops::IndexMut::index_mut", "core::slice::<impl [T]>::as_ptr", "core::slice::<impl [T]>::as_mut_ptr",
                "core::ptr::read", "core::ptr::write", "core::ptr::drop_in_place", "core::mem::forget", "core::mem::ManuallyDrop::<T>::new")


def check_live_range(ctx, cfg, it, rule="C06.K"):
    """Live-range discipline: slots outside [index, index_back) have been moved out or destroyed. In every method of the iterator, a view of its
    storage that is handed to code which reads elements (an iterator constructor, Clone::clone, a fold, anything foreign) must lie inside the live
    range; a whole-array view is only acceptable where index == 0 and index_back == N are known."""
    from ..rules import is_view
    from ..absint import State
    n = 0
    for b, byval in iter_entry_points(ctx, cfg, it):
        if b.get("impl_trait") == "core::ops::Drop":
            continue
        _, an = analyse(ctx, cfg, b["key"], it, byval)
        N, S = NS(an)
        selfb = ("local", 1) if byval else ("arg", 1)
        bad = []
        k = 0
        for c in an.calls:
            if c.fn in PLUMBING_FNS or is_view(c) or c.fn.startswith(("core::ptr::const_ptr::", "core::ptr::mut_ptr::", "core::slice::from_raw_parts", "core::ptr::slice_from_raw_parts")):
                continue
            for v, op_ in zip(c.args, c.term["args"]):
                if not (v[0] == "P" and isinstance(v[1], tuple) and v[1][0] == "field" and v[1][1] == selfb and v[1][2] == (it.ia,)):
                    continue
                if any(isinstance(x, tuple) and x and x[0] == "elemoff" for x in v[2].atoms()):
                    continue  # an element yielded by a slice iterator over the storage: the iterator's own range was judged where it was created
                k += 1
                st = State(c.mem, c.facts)
                lo = an.read_cell(st, selfb, (it.i0,), {"k": "prim", "n": "usize"})
                hi = an.read_cell(st, selfb, (it.i1,), {"k": "prim", "n": "usize"})
                if lo[0] != "I" or hi[0] != "I":
                    bad.append("%s: live range unknown" % c.fn.split("::")[-1])
                    continue
                pf = an.poly_facts(c.facts)
                # extent of what the callee may read: the slice length, else the pointee type of the argument
                from ..tys import pointee as _pointee
                pt_ = _pointee(an.operand_ty(op_)) if an.operand_ty(op_) is not None else None
                if v[3] is not None:
                    ext = v[3] * S
                elif pt_ is not None and pt_.get("k") != "slice" and an.tenv.size(pt_) is not None:
                    ext = an.tenv.size(pt_)
                else:
                    ext = N * S
                inside = prove((">=", v[2] - lo[1] * S), pf) and prove((">=", hi[1] * S - v[2] - ext), pf)
                if not inside:
                    bad.append("%s receives bytes [%r, +%r) of the storage while the live range is [%r, %r)" % (c.fn.split("::")[-1], v[2], ext, lo[1], hi[1]))
        ctx.ob(rule, b["key"], not bad, ("%d view(s) of the storage handed to element-reading code, each inside [index, index_back)" % k) if not bad else
               "storage outside the live range (moved-out or destroyed slots) is handed to code that reads elements: " + "; ".join(sorted(set(bad))), at=b["at"], cfg=cfg)
        n += 1
    return n


def check_total(ctx, cfg, it, rule="C06.N"):
    """The reference model never fails: a deque's pop / skip / len / fold do not panic whatever the argument. Under the invariant no method of
    the iterator has a reachable panic of its own - no explicit panic, and no arithmetic check that can fail (`index + n` with an unbounded
    n overflows: a panic where checks are on, a cursor that wraps backwards where they are off; `index + min(n, len)` is at most index_back)."""
    from ..rules import reachable_panics
    db = ctx.db(cfg)
    n = 0
    for nm in ("next", "next_back", "nth", "nth_back", "len", "size_hint", "count", "last", "fold", "rfold", "as_slice", "as_mut_slice"):
        key = K[nm]
        if db.get(key) is None:
            continue   # an optional override that is not there: the provided method runs on the primitives judged here
        byval = nm in ("count", "last", "fold", "rfold")
        b, an = analyse(ctx, cfg, key, it, byval=byval)
        if an.unknown:
            ctx.ob(rule, key, UNKNOWN, "analysis incomplete: %s" % (an.unknown[:2],), at=b["at"], cfg=cfg)
            continue
        rp = reachable_panics(an)
        ctx.ob(rule, key, not rp, "no panic of the method's own is reachable under index <= index_back <= N (explicit panics, overflow / underflow checks of the cursor arithmetic)" if not rp
               else "; ".join(rp), at=b["at"], cfg=cfg)
        n += 1
    return n


def check(ctx):
    ctx.explanation = EXPLANATION
    ctx.trusted = ["core::slice::Iter fold/rfold traverse ascending/descending; Zip pairs items in order", "rustc MIR construction"]
    ctx.assumptions = ["formatted Debug text is whatever DebugTuple/[T] print (delegation is checked, the string is not)"]
    cfgs = ["F0", "F1", "F1N"] if ctx.tier == "quick" else ["F0", "F1", "F1N", "F2", "F0N", "F2N"]
    ctx.need(*cfgs)
    for cfg in cfgs:
        it = It(ctx.db(cfg))
        verify_models(ctx, cfg, [K["len"], K["as_slice"], K["as_mut_slice"]])
        check_next(ctx, cfg, it, "next")
        check_next(ctx, cfg, it, "next_back")
        check_nth(ctx, cfg, it, "nth")
        check_nth(ctx, cfg, it, "nth_back")
        check_simple(ctx, cfg, it)
        check_folds(ctx, cfg, it, "fold")
        check_folds(ctx, cfg, it, "rfold")
        check_clone(ctx, cfg, it)
        check_live_range(ctx, cfg, it)
        check_total(ctx, cfg, it)
        check_other_cursor_moves(ctx, cfg, it)
        from . import c03 as _c03
        _c03.check_owner_constructions(ctx, cfg, "C06.C")
        n = check_unchecked_bounds(ctx, cfg, it)
        ctx.floor("C06.U", "unchecked accesses to the iterator's storage (%s)" % cfg, n, 4)
        # FusedIterator / ExactSizeIterator are claimed by impls: they must exist for the checks above to matter
        db = ctx.db(cfg)
        for tr in ("core::iter::FusedIterator", "core::iter::ExactSizeIterator", "core::iter::DoubleEndedIterator"):
            has = any(i.get("trait") == tr and i["self"].get("k") == "adt" and i["self"]["def"] == it.path for i in db.impls)
            ctx.ob("C06.S", "impl %s" % tr, has, "impl present: %s" % has, cfg=cfg)
