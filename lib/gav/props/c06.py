"""C06 - the by-value iterator behaves as a double-ended, exact-size, fused queue."""

from ..core import PROVED, REFUTED, UNKNOWN, MISSING
from ..poly import Poly, prove
from ..absint import analyze, State
from ..models import verify_models
from ..ownership import find_in, owner_adts
from ..rules import vstr, fstr, payload_calls, peq
from ..typestate import Classifier, check_closure_protocol
from ..tys import tstr

EXPLANATION = (
    "Refinement proof obligations, decided on the polymorphic MIR of iter.rs (configs F0+F1). With the abstraction alpha(iter) = array[index .. index_back], the queue "
    "behaviour over all interleavings follows by induction from per-method obligations, each checked by abstract interpretation with the invariant index <= index_back <= N "
    "assumed at entry: C06.I the invariant is established by into_iter (0, N) and preserved by every store to the two indices; C06.S each method's effect equals the deque "
    "specification - next reads slot `index` and stores index+1 only under index < index_back and returns Some of exactly that slot, next_back stores index_back-1 and reads that slot, "
    "the None paths store nothing (fused), len = index_back - index, size_hint = (len, Some(len)), count = len, nth/nth_back skip min(n, len) elements at the right end then delegate to next/next_back, "
    "last = next_back, as_slice/as_mut_slice/Debug view exactly [index, index_back), fold/rfold traverse that range forward/backward with one read and one index step per element before f and pass (acc, value), "
    "clone copies [index, index_back) element-wise in order into the front of a fresh iterator (0, count) without storing to the original; C06.U every get_unchecked(_mut) index/range is within [0, N] under the invariant. "
    "Elements are opaque values of a type parameter, so 'which element' is 'which index': nothing numerical is left to execute.")

IT = "GenericArrayIter<$0,$1>"
K = {
    "next": "<%s as core::iter::Iterator>::next" % IT,
    "next_back": "<%s as core::iter::DoubleEndedIterator>::next_back" % IT,
    "nth": "<%s as core::iter::Iterator>::nth" % IT,
    "nth_back": "<%s as core::iter::DoubleEndedIterator>::nth_back" % IT,
    "len": "<%s as core::iter::ExactSizeIterator>::len" % IT,
    "size_hint": "<%s as core::iter::Iterator>::size_hint" % IT,
    "count": "<%s as core::iter::Iterator>::count" % IT,
    "last": "<%s as core::iter::Iterator>::last" % IT,
    "fold": "<%s as core::iter::Iterator>::fold" % IT,
    "rfold": "<%s as core::iter::DoubleEndedIterator>::rfold" % IT,
    "clone": "<%s as core::clone::Clone>::clone" % IT,
    "debug": "<%s as core::fmt::Debug>::fmt" % IT,
    "as_slice": "%s::as_slice" % IT,
    "as_mut_slice": "%s::as_mut_slice" % IT,
    "into_iter": "<GenericArray<$0,$1> as core::iter::IntoIterator>::into_iter",
}


class It:
    """Field layout of GenericArrayIter in this build + helpers for a &mut self / &self / by-value self receiver."""

    def __init__(self, db):
        self.path = None
        for p, a in db.adts.items():
            if p.split("::")[-1] == "GenericArrayIter":
                self.path, self.adt = p, a
        names = [f["name"] for f in self.adt["fields"]]
        self.ia, self.i0, self.i1 = names.index("array"), names.index("index"), names.index("index_back")

    def entry(self, an, byval):
        """(index0, back0) atoms at entry and the invariant facts."""
        if byval:
            lo = Poly.atom(("proj", ("proj", ("V", "arg", 1), (self.i0,))))
            hi = Poly.atom(("proj", ("proj", ("V", "arg", 1), (self.i1,))))
        else:
            lo = Poly.atom(("cell", (("arg", 1), (self.i0,))))
            hi = Poly.atom(("cell", (("arg", 1), (self.i1,))))
        return lo, hi

    def inv_facts(self, byval):
        def f(an):
            lo, hi = self.entry(an, byval)
            b = an.body
            targs = [x for x in b["impl_self"]["args"] if x.get("k") != "region"]
            N = an.tenv.length(targs[-1])
            return [("poly", ">=", hi - lo), ("poly", ">=", N - hi)]
        return f


def analyse(ctx, cfg, key, it, byval=False):
    db = ctx.db(cfg)
    b = db.get(key)
    if b is None:
        return None, None
    k = (cfg, key, "inv")
    if k not in ctx.analysed:
        ctx.analysed[k] = analyze(db, b, None, it.inv_facts(byval))
    return b, ctx.analysed[k]


def NS(an):
    targs = [x for x in an.body["impl_self"]["args"] if x.get("k") != "region"]
    return an.tenv.length(targs[-1]), an.tenv.size(targs[0])


def stores_to(an, it, base):
    out = []
    for s in an.stores + an.assigns:
        c = s["cell"]
        if c[0] == base and len(c[1]) == 1 and c[1][0] in (it.i0, it.i1) and s not in out:
            out.append(s)
    # dedupe (stores is a subset of assigns for non-local bases)
    seen, res = set(), []
    for s in out:
        if s["site"] not in seen:
            seen.add(s["site"])
            res.append(s)
    return res


def check_invariant_preserved(ctx, cfg, name, b, an, it, base):
    """After each store to an index field, index <= index_back <= N still holds (other field = its current value)."""
    N, S = NS(an)
    for s in stores_to(an, it, base):
        st = State(None, s["facts"])
        # current value of the other field: look in the recorded memory of the nearest call is unavailable for statements; use entry atom unless stored earlier in the same block
        lo0, hi0 = it.entry(an, base[0] == "local")
        cur = {it.i0: lo0, it.i1: hi0}
        for s2 in stores_to(an, it, base):
            if s2 is s:
                break
            if an.dominates(s2["site"][0], s["site"][0]) and s2["val"][0] == "I":
                cur[s2["cell"][1][0]] = s2["val"][1]
        if s["val"][0] != "I":
            ctx.ob("C06.I", "%s#store#%s" % (K[name], s["site"][1]), UNKNOWN, "non-integer store to an index field", at=s.get("at"), cfg=cfg)
            continue
        cur[s["cell"][1][0]] = s["val"][1]
        pf = an.poly_facts(s["facts"])
        ok = prove((">=", cur[it.i1] - cur[it.i0]), pf) and prove((">=", N - cur[it.i1]), pf) and prove((">=", cur[it.i0]), pf)
        ctx.ob("C06.I", "%s#store_%s" % (K[name], "index" if s["cell"][1][0] == it.i0 else "index_back"), ok,
               "after the store: index = %r, index_back = %r; 0 <= index <= index_back <= N provable under %s: %s" % (cur[it.i0], cur[it.i1], fstr(s["facts"]), ok), at=s.get("at"), cfg=cfg)


def slot_reads(an, it, base):
    """ptr::read calls whose pointer is a slot of the iterator's own storage: (call, element index poly)."""
    N, S = NS(an)
    out = []
    for c in an.calls:
        if c.fn == "core::ptr::read" and c.args[0][0] == "P" and c.args[0][1] == ("field", base, (it.ia,)):
            out.append(c)
    return out


def check_next(ctx, cfg, it, name):
    rule = "C06.S"
    b, an = analyse(ctx, cfg, K[name], it)
    if b is None:
        ctx.ob(rule, K[name], MISSING, "method not found", cfg=cfg)
        return
    N, S = NS(an)
    lo, hi = it.entry(an, False)
    base = ("arg", 1)
    reads = slot_reads(an, it, base)
    sts = stores_to(an, it, base)
    ok = len(reads) == 1 and len(sts) == 1
    det = "expected one slot read and one index store; found %d / %d" % (len(reads), len(sts))
    if ok:
        r, s = reads[0], sts[0]
        pf = an.poly_facts(r.facts)
        guard = prove((">=", hi - lo - 1), pf) and prove((">=", hi - lo - 1), an.poly_facts(s["facts"]))
        if name == "next":
            slot_ok = peq(an, r.facts, r.args[0][2], lo * S)
            st_ok = s["cell"][1][0] == it.i0 and s["val"][0] == "I" and peq(an, s["facts"], s["val"][1], lo + 1)
            spec = "read slot index, store index+1"
        else:
            slot_ok = peq(an, r.facts, r.args[0][2], (hi - 1) * S)
            st_ok = s["cell"][1][0] == it.i1 and s["val"][0] == "I" and peq(an, s["facts"], s["val"][1], hi - 1)
            spec = "store index_back-1, read slot index_back-1"
        # returns Some(read value) on the guarded path, None otherwise, and the None path stores nothing
        somes = [g for g in an.aggregates if isinstance(g["kind"], tuple) and g["kind"][:2] == ("adt", "core::option::Option")]
        some_ok = any(g["kind"][2] == 1 and g["ops"] == (r.ret,) for g in somes)
        nones = [g for g in somes if g["kind"][2] == 0]
        none_ok = bool(nones) and all(prove((">=", lo - hi), an.poly_facts(g["facts"])) for g in nones)
        fused = all(not an.dominates(g["site"][0], s["site"][0]) and not an.reaches(g["site"][0], s["site"][0]) for g in nones)
        in_bounds = prove((">=", N * S - r.args[0][2] - S), pf) and prove((">=", r.args[0][2]), pf)
        ok = guard and slot_ok and st_ok and some_ok and none_ok and fused and in_bounds
        det = "%s: guard index < index_back dominates read and store: %s; slot: %s; store: %s; Some(that value) returned: %s; None only when empty: %s; None path stores nothing (fused): %s; slot within [0, N): %s" % (
            spec, guard, slot_ok, st_ok, some_ok, none_ok, fused, in_bounds)
    ctx.ob(rule, K[name], ok, det, at=b["at"], cfg=cfg)
    ctx.sample({"rule": rule, "method": name, "cfg": cfg, "detail": det})
    check_invariant_preserved(ctx, cfg, name, b, an, it, base)


def check_nth(ctx, cfg, it, name):
    rule = "C06.S"
    b, an = analyse(ctx, cfg, K[name], it)
    if b is None:
        ctx.ob(rule, K[name], MISSING, "method not found", cfg=cfg)
        return
    N, S = NS(an)
    lo, hi = it.entry(an, False)
    n = Poly.atom(("arg", 2))
    base = ("arg", 1)
    from ..poly import mk_min
    m = mk_min(n, hi - lo)
    sts = stores_to(an, it, base)
    dips = an.calls_to("core::ptr::drop_in_place")
    tail = [c for c in an.calls if c.key == (K["next"] if name == "nth" else K["next_back"])]
    ok = len(sts) == 1 and len(dips) == 1 and len(tail) == 1
    det = "expected one index store, one drop_in_place and one delegation; found %d / %d / %d" % (len(sts), len(dips), len(tail))
    if ok:
        s, d, t = sts[0], dips[0], tail[0]
        p = d.args[0]
        if name == "nth":
            st_ok = s["cell"][1][0] == it.i0 and s["val"][0] == "I" and peq(an, s["facts"], s["val"][1], lo + m)
            rng_ok = p[0] == "P" and p[1] == ("field", base, (it.ia,)) and p[3] is not None and peq(an, d.facts, p[2], lo * S) and peq(an, d.facts, p[3], m)
            spec = "drop [index, index+m), index += m, then next()   (m = min(n, len))"
        else:
            st_ok = s["cell"][1][0] == it.i1 and s["val"][0] == "I" and peq(an, s["facts"], s["val"][1], hi - m)
            rng_ok = p[0] == "P" and p[1] == ("field", base, (it.ia,)) and p[3] is not None and peq(an, d.facts, p[2], (hi - m) * S) and peq(an, d.facts, p[3], m)
            spec = "drop [index_back-m, index_back), index_back -= m, then next_back()"
        order = an.dominates(s["site"][0], t.bb) and an.dominates(d.bb, t.bb)
        self_ok = t.args[0][0] == "P" and t.args[0][1] == base and not t.args[0][2].t
        ret_ok = all(r["val"] == t.ret for r in an.returns)
        ok = st_ok and rng_ok and order and self_ok and ret_ok
        det = "%s: store: %s; dropped range: %s; both before the delegation on self: %s/%s; its result returned: %s" % (spec, st_ok, rng_ok, order, self_ok, ret_ok)
    ctx.ob(rule, K[name], ok, det, at=b["at"], cfg=cfg)
    ctx.sample({"rule": rule, "method": name, "cfg": cfg, "detail": det})
    check_invariant_preserved(ctx, cfg, name, b, an, it, base)


def check_simple(ctx, cfg, it):
    rule = "C06.S"
    # size_hint
    b, an = analyse(ctx, cfg, K["size_hint"], it)
    if b is None:
        ctx.ob(rule, K["size_hint"], MISSING, "method not found", cfg=cfg)
    else:
        lo, hi = it.entry(an, False)
        ln = ("I", hi - lo)
        want = ("A", "tuple", (ln, ("A", ("adt", "core::option::Option", 1), (ln,))))
        ok = bool(an.returns) and all(r["val"] == want for r in an.returns) and not stores_to(an, it, ("arg", 1))
        ctx.ob(rule, K["size_hint"], ok, "returns %s; spec (len, Some(len)) with len = index_back - index" % ", ".join(vstr(r["val"]) for r in an.returns), at=b["at"], cfg=cfg)
    # count (by value)
    b, an = analyse(ctx, cfg, K["count"], it, True)
    if b is None:
        ctx.ob(rule, K["count"], MISSING, "method not found", cfg=cfg)
    else:
        lo, hi = it.entry(an, True)
        ok = bool(an.returns) and all(r["val"] == ("I", hi - lo) for r in an.returns)
        ctx.ob(rule, K["count"], ok, "returns %s; spec index_back - index" % ", ".join(vstr(r["val"]) for r in an.returns), at=b["at"], cfg=cfg)
    # last
    b, an = analyse(ctx, cfg, K["last"], it, True)
    if b is None:
        ctx.ob(rule, K["last"], MISSING, "method not found", cfg=cfg)
    else:
        cs = [c for c in an.calls if c.key == K["next_back"]]
        ok = len(cs) == 1 and len(payload_calls(an)) == 1 and cs[0].args[0][0] == "P" and cs[0].args[0][1] == ("local", 1) and all(r["val"] == cs[0].ret for r in an.returns)
        ctx.ob(rule, K["last"], ok, "last() = next_back() on self, result returned, then self dropped", at=b["at"], cfg=cfg)
    # Debug
    b, an = analyse(ctx, cfg, K["debug"], it)
    if b is None:
        ctx.ob(rule, K["debug"], MISSING, "method not found", cfg=cfg)
    else:
        N, S = NS(an)
        lo, hi = it.entry(an, False)
        pc = payload_calls(an)
        names = [c.fn.split("::")[-1] for c in pc]
        asl = [c for c in an.calls if c.key == K["as_slice"]]
        fld = [c for c in pc if c.fn.endswith("::field")]
        ok = names == ["debug_tuple", "as_slice", "field", "finish"] or sorted(names) == sorted(["debug_tuple", "as_slice", "field", "finish"])
        view_ok = len(asl) == 1 and asl[0].ret[0] == "P" and peq(an, asl[0].facts, asl[0].ret[2], lo * S) and peq(an, asl[0].facts, asl[0].ret[3], hi - lo)
        passed = False
        if len(fld) == 1 and fld[0].args[1][0] == "P":
            held = fld[0].mem.get((fld[0].args[1][1], ()))
            passed = held == asl[0].ret if asl else False
        ctx.ob(rule, K["debug"], ok and view_ok and passed, "Debug = debug_tuple(..).field(&as_slice()).finish(); calls %s; the field shown is the [index, index_back) view: %s" % (names, view_ok and passed), at=b["at"], cfg=cfg)
    # into_iter
    b = ctx.body(cfg, K["into_iter"], rule)
    if b is not None:
        an = ctx.analysis(cfg, K["into_iter"])
        targs = [x for x in b["impl_self"]["args"] if x.get("k") != "region"]
        N = an.tenv.length(targs[-1])
        want_ops = {it.ia: ("V", "arg", 1), it.i0: ("I", Poly.const(0)), it.i1: ("I", N)}
        ok = bool(an.returns) and all(r["val"][0] == "A" and r["val"][1] == ("adt", it.path, 0) and all(r["val"][2][i] == v for i, v in want_ops.items()) for r in an.returns)
        ctx.ob("C06.I", K["into_iter"], ok, "into_iter builds {array: self, index: 0, index_back: N}: %s" % ", ".join(vstr(r["val"]) for r in an.returns), at=b["at"], cfg=cfg)


def check_folds(ctx, cfg, it, name):
    rule = "C06.S"
    b, an = analyse(ctx, cfg, K[name], it, True)
    if b is None:
        ctx.ob(rule, K[name], MISSING, "method not found", cfg=cfg)
        return
    db = ctx.db(cfg)
    N, S = NS(an)
    lo, hi = it.entry(an, True)
    want_fn = "core::iter::Iterator::fold" if name == "fold" else "core::iter::DoubleEndedIterator::rfold"
    drv = [c for c in an.calls if c.fn in ("core::iter::Iterator::fold", "core::iter::DoubleEndedIterator::rfold", "core::iter::Iterator::for_each", "core::iter::Iterator::try_fold")]
    ok = len(drv) == 1 and drv[0].fn == want_fn
    det = "expected exactly one %s over the live range; found %s" % (want_fn, [c.fn for c in drv])
    if ok:
        d = drv[0]
        itv = d.args[0]
        shape = isinstance(itv, tuple) and len(itv) == 5 and itv[:3] == ("V", "iter", "slice")
        rng = shape and itv[3][1] == ("field", ("local", 1), (it.ia,)) and peq(an, d.facts, itv[3][2], lo * S) and peq(an, d.facts, itv[3][3], hi - lo)
        init_ok = d.args[1] == ("V", "arg", 2)
        cv = d.args[2]
        cl_ok = False
        cdet = ""
        if cv[0] == "A" and isinstance(cv[1], tuple) and cv[1][0] == "closure":
            cb = db.by_path.get(cv[1][1])
            ca = ctx.analysis(cfg, cb["key"])
            role, cok, cdet, info = check_closure_protocol(ca, Classifier(db))
            # position upvar is the right index, moved in the right direction
            pos_field = it.i0 if name == "fold" else it.i1
            want_delta = 1 if name == "fold" else -1
            pos_ok = False
            for k in info["positions"]:
                op = cv[2][k]
                if op[0] == "P" and op[1] == ("field", ("local", 1), (pos_field,)):
                    pos_ok = True
            deltas = set()
            from ..typestate import closure_events
            for evs in closure_events(ca, Classifier(db)).values():
                for e in evs:
                    if e[2] == "inc":
                        deltas.add(e[3][1])
            # f is called with (acc, value) and its result returned
            calls = [c for c in ca.calls if c.fn == "core::ops::FnMut::call_mut"]
            reads = [c for c in ca.calls if c.fn == "core::ptr::read"]
            argok = len(calls) == 1 and len(reads) == 1 and calls[0].args[1] == ("A", "tuple", (("V", "arg", 2), reads[0].ret)) and all(r["val"] == calls[0].ret for r in ca.returns)
            cl_ok = cok and role == "consumer" and pos_ok and deltas == {want_delta} and argok
            cdet = "closure: protocol ok %s, advances %s by %s, calls f(acc, value) once and returns its result: %s" % (cok, "index" if name == "fold" else "index_back", sorted(deltas), argok)
        ret_ok = all(r["val"] == d.ret for r in an.returns)
        ok = shape and rng and init_ok and cl_ok and ret_ok
        det = "%s over slice iter of [index, index_back): %s; init passed through: %s; %s; result returned: %s" % (want_fn.split("::")[-1], bool(rng), init_ok, cdet, ret_ok)
    ctx.ob(rule, K[name], ok, det, at=b["at"], cfg=cfg)
    ctx.sample({"rule": rule, "method": name, "cfg": cfg, "detail": det})


def check_clone(ctx, cfg, it):
    rule = "C06.S"
    b, an = analyse(ctx, cfg, K["clone"], it)
    if b is None:
        ctx.ob(rule, K["clone"], MISSING, "method not found", cfg=cfg)
        return
    N, S = NS(an)
    lo, hi = it.entry(an, False)
    # new iterator local: an aggregate GenericArrayIter{array: bit copy, 0, 0}
    news = [g for g in an.aggregates if g["kind"] == ("adt", it.path, 0)]
    writes = [c for c in an.calls if c.fn == "core::ptr::write"]
    clones = [c for c in an.calls if c.fn == "core::clone::Clone::clone"]
    nexts = [c for c in an.calls if c.fn == "core::iter::Iterator::next" and c.ret[0] == "O"]
    ok = len(news) == 1 and len(writes) == 1 and len(clones) == 1 and len(nexts) == 1
    det = "expected one fresh iterator aggregate, one element clone and one write per loop iteration"
    if ok:
        g = news[0]
        init_ok = g["ops"][it.i0] == ("I", Poly.const(0)) and g["ops"][it.i1] == ("I", Poly.const(0))
        nx = nexts[0]
        el = nx.ret[1]
        pair = el[0] == "A" and el[1] == "tuple" and len(el[2]) == 2
        # the zip term: destination = front of the new iterator's storage, source = [index, back) of self
        zt = None
        for c in an.calls:
            if c.fn == "core::iter::Iterator::zip":
                zt = c
        dst_ok = src_ok = False
        newloc = None
        if zt is not None:
            a0, a1 = zt.args[0], zt.args[1]
            if isinstance(a0, tuple) and a0[:3] == ("V", "iter", "slice"):
                p = a0[3]
                if p[1][0] == "field" and p[1][1][0] == "local" and p[1][2] == (it.ia,):
                    newloc = p[1][1][1]
                    dst_ok = peq(an, zt.facts, p[2], Poly.const(0)) and p[3] is not None and peq(an, zt.facts, p[3], N)
            src = a1[3] if (isinstance(a1, tuple) and a1[:3] == ("V", "iter", "slice")) else a1
            if src[0] == "P" and src[1] == ("field", ("arg", 1), (it.ia,)) and src[3] is not None:
                src_ok = peq(an, zt.facts, src[2], lo * S) and peq(an, zt.facts, src[3], hi - lo)
        wr, cl = writes[0], clones[0]
        body_ok = pair and cl.args[0] == el[2][1] and wr.args[0] == el[2][0] and wr.args[1] == cl.ret
        # per iteration: index_back of the NEW iterator += 1, nothing else of it, nothing of self
        incs = [s for s in an.assigns if newloc is not None and s["cell"] == (("local", newloc), (it.i1,))]
        inc_ok = len(incs) == 1 and incs[0]["val"][0] == "I" and len((incs[0]["val"][1] - Poly.const(1)).atoms()) == 1 and an.dominates(wr.bb, incs[0]["site"][0])
        self_untouched = not stores_to(an, it, ("arg", 1))
        ret_ok = newloc is not None and all(r["val"][0] == "A" and r["val"][1] == ("adt", it.path, 0) and r["val"][2][it.i0] == ("I", Poly.const(0)) for r in an.returns)
        ok = init_ok and dst_ok and src_ok and body_ok and inc_ok and self_untouched and ret_ok
        det = "fresh iterator starts (0, 0): %s; zip(destination = its storage from slot 0: %s, source = self[index, index_back): %s); per item: write(dst, clone(src)): %s then index_back += 1: %s; original untouched: %s; the new iterator (index 0) is returned: %s" % (
            init_ok, dst_ok, src_ok, body_ok, inc_ok, self_untouched, ret_ok)
    ctx.ob(rule, K["clone"], ok, det, at=b["at"], cfg=cfg)
    ctx.sample({"rule": rule, "method": "clone", "cfg": cfg, "detail": det})


def check_unchecked_bounds(ctx, cfg, it):
    rule = "C06.U"
    n = 0
    for name in ("next", "next_back", "nth", "nth_back", "as_slice", "as_mut_slice", "fold", "rfold"):
        byval = name in ("fold", "rfold")
        b, an = analyse(ctx, cfg, K[name], it, byval)
        if b is None:
            continue
        N, S = NS(an)
        for i, c in enumerate(an.calls):
            if c.fn not in ("core::slice::<impl [T]>::get_unchecked", "core::slice::<impl [T]>::get_unchecked_mut"):
                continue
            pf = an.poly_facts(c.facts)
            idx = c.args[1]
            rng = an.range_of(idx, c.args[0][3] if c.args[0][0] == "P" else None)
            if rng is not None and rng[1] is not None:
                ok = prove((">=", rng[0]), pf) and prove((">=", rng[1] - rng[0]), pf) and prove((">=", N - rng[1]), pf)
                det = "range [%r, %r) within [0, N] and ordered under the invariant: %s" % (rng[0], rng[1], ok)
            elif idx[0] == "I":
                ok = prove((">=", idx[1]), pf) and prove((">=", N - idx[1] - 1), pf)
                det = "index %r within [0, N) under the invariant and the guard: %s" % (idx[1], ok)
            else:
                ok, det = None, "index expression not understood: %s" % vstr(idx)
            ctx.ob(rule, "%s#get_unchecked#%d" % (K[name], n), ok, det, at=c.at, cfg=cfg)
            n += 1
    return n


def check(ctx):
    ctx.explanation = EXPLANATION
    ctx.trusted = ["core::slice::Iter fold/rfold traverse ascending/descending; Zip pairs items in order", "rustc MIR construction"]
    ctx.assumptions = ["formatted Debug text is whatever DebugTuple/[T] print (delegation is checked, the string is not)"]
    cfgs = ["F0", "F1"] if ctx.tier == "quick" else ["F0", "F1", "F2"]
    ctx.need(*cfgs)
    for cfg in cfgs:
        it = It(ctx.db(cfg))
        verify_models(ctx, cfg, [K["len"], K["as_slice"], K["as_mut_slice"]])
        check_next(ctx, cfg, it, "next")
        check_next(ctx, cfg, it, "next_back")
        check_nth(ctx, cfg, it, "nth")
        check_nth(ctx, cfg, it, "nth_back")
        check_simple(ctx, cfg, it)
        check_folds(ctx, cfg, it, "fold")
        check_folds(ctx, cfg, it, "rfold")
        check_clone(ctx, cfg, it)
        n = check_unchecked_bounds(ctx, cfg, it)
        ctx.floor("C06.U", "get_unchecked sites in iter.rs (%s)" % cfg, n, 8)
        # FusedIterator / ExactSizeIterator are claimed by impls: they must exist for the checks above to matter
        db = ctx.db(cfg)
        for tr in ("core::iter::FusedIterator", "core::iter::ExactSizeIterator", "core::iter::DoubleEndedIterator"):
            has = any(i.get("trait") == tr and i["self"].get("k") == "adt" and i["self"]["def"] == it.path for i in db.impls)
            ctx.ob("C06.S", "impl %s" % tr, has, "impl present: %s" % has, cfg=cfg)
