"""C12 - length, thread-safety and lifetime errors are rejected at compile time."""

from .. import run as R
from ..core import PROVED, REFUTED, UNKNOWN, MISSING
from ..corpus import build as build_corpus
from ..rules import lifetime_linkage
from ..tys import tstr, adt_args, is_ga
from ..witness import run_twins, judge

EXPLANATION = (
    "The oracle is rustc. C12.W: a generated corpus of minimal programs in accept/reject twins that differ in exactly one length, bound or lifetime is compiled (type-check only, --emit=metadata) "
    "against the working tree's library: every accept twin must compile and every reject twin must fail with an error code from its expected class (length: E0271/E0277/E0308/E0599..., auto traits: E0277, "
    "lifetimes/aliasing: E0499/E0502/E0505/E0515/E0597/E0621/E0308...). It covers zip in all nine stack receiver x argument forms + boxed, comparisons, split, pop/remove on empty, lengthen/concat/shorten "
    "annotations, native-array and tuple conversions (arity 1..12), flatten/unflatten, chunk reinterpretation, arr!/box_arr! inference, ConstArrayLength, Send/Sync/Copy/Clone of arrays and iterators, sealedness, "
    "and for every reference-returning API: returning a view of a local, upgrading & to &mut, 'static upgrade, two live &mut views. Universal rules on the type-checked crate: C12.A every unsafe impl Send/Sync bounds each element "
    "parameter by the same auto trait; C12.C Copy for GenericArray implies T: Copy by induction over the storage impls, Clone requires T: Clone, the iterator has no hand-written Send/Sync/Copy; C12.S ArrayLength is sealed; "
    "C12.L every function whose body manufactures a reference from a raw pointer / from_raw_parts / a reference transmute ties each returned region (and &mut-ness) to an input.")


def preds_of(imp):
    return [p for p in imp["predicates"] if p.get("k") == "trait"]


def has_bound(imp, param, trait):
    return any(p["trait"] == trait and p["self"].get("k") == "param" and p["self"]["n"] == param for p in preds_of(imp))


def check_auto_impls(ctx, cfg):
    rule = "C12.A"
    db = ctx.db(cfg)
    n = 0
    for imp in db.impls:
        tr = imp.get("trait")
        if tr not in ("core::marker::Send", "core::marker::Sync") or not imp.get("unsafe"):
            continue
        tparams = [g["n"] for g in imp["generics"] if g["kind"] == "type"]
        # element-like parameters: every type parameter that is not bounded by ArrayLength
        elems = [p for p in tparams if not any(q["trait"].split("::")[-1] == "ArrayLength" and q["self"].get("k") == "param" and q["self"]["n"] == p for q in preds_of(imp))]
        missing = [p for p in elems if not has_bound(imp, p, tr)]
        ctx.ob(rule, db.impl_key(imp), not missing and bool(elems), "unsafe impl %s: element parameters %s; missing `%s` bound on %s" % (tr.split("::")[-1], elems, tr.split("::")[-1], missing or "none"), at=imp["at"], cfg=cfg)
        n += 1
    ctx.floor(rule, "unsafe auto-trait impls (%s)" % cfg, n, 2)
    # the iterator and the builders get their auto traits structurally: no hand-written impls
    for imp in db.impls:
        tr = imp.get("trait")
        if tr in ("core::marker::Send", "core::marker::Sync", "core::marker::Copy") and imp["self"].get("k") == "adt" and imp["self"]["def"].split("::")[-1] == "GenericArrayIter":
            ctx.ob(rule, db.impl_key(imp), REFUTED, "hand-written %s impl for the iterator (must be derived structurally)" % tr, at=imp["at"], cfg=cfg, frozen=False)


def check_copy_clone(ctx, cfg):
    rule = "C12.C"
    db = ctx.db(cfg)
    copies = [i for i in db.impls if i.get("trait") == "core::marker::Copy"]
    ga = [i for i in copies if is_ga(i["self"])]
    nodes = [i for i in copies if i["self"].get("k") == "adt" and i["self"]["def"].startswith("GenericArrayImpl")]
    ok = False
    det = "no Copy impl for GenericArray"
    if len(ga) == 1:
        imp = ga[0]
        T = adt_args(imp["self"])[0]["n"]
        direct = has_bound(imp, T, "core::marker::Copy")
        via_storage = any(p["trait"] == "core::marker::Copy" and p["self"].get("k") == "alias" and p["self"]["def"].endswith("ArrayLength::ArrayType") for p in preds_of(imp))
        # `N::ArrayType<T>: Copy` implies `T: Copy` on its own: rustc accepts a Copy impl only if every field is Copy under the impl's bounds (E0204), the
        # odd node has a field of type T, the even node two children, and the base case [T; 0] is Copy only for T: Copy (the field structure is C01.S's
        # obligation). Whether the nodes' own impls spell `T: Copy` out is therefore immaterial to GenericArray
        ok = direct or via_storage
        det = "Copy for GenericArray<T, N>: T: Copy directly: %s; N::ArrayType<T>: Copy (implies T: Copy by induction over the storage nodes, whose Copy impls the compiler only accepts if every field is Copy): %s; Copy impls for storage nodes: %d" % (direct, via_storage, len(nodes))
    ctx.ob(rule, "Copy for GenericArray", ok, det, cfg=cfg)
    cl = [i for i in db.impls if i.get("trait") == "core::clone::Clone" and is_ga(i["self"])]
    okc = len(cl) == 1 and has_bound(cl[0], adt_args(cl[0]["self"])[0]["n"], "core::clone::Clone")
    ctx.ob(rule, "Clone for GenericArray", okc, "Clone for GenericArray<T, N> requires T: Clone: %s" % okc, cfg=cfg)
    ci = [i for i in db.impls if i.get("trait") == "core::clone::Clone" and i["self"].get("k") == "adt" and i["self"]["def"].split("::")[-1] == "GenericArrayIter"]
    okc = len(ci) == 1 and has_bound(ci[0], adt_args(ci[0]["self"])[0]["n"], "core::clone::Clone")
    ctx.ob(rule, "Clone for GenericArrayIter", okc, "Clone for GenericArrayIter<T, N> requires T: Clone: %s" % okc, cfg=cfg)


def check_sealed(ctx, cfg):
    rule = "C12.S"
    db = ctx.db(cfg)
    tr = db.traits.get("ArrayLength")
    if tr is None:
        ctx.ob(rule, "ArrayLength", MISSING, "trait not found", cfg=cfg)
        return
    sup = any("typenum::Unsigned" in s for s in tr["supers"])
    at = [x for x in tr["items"] if x["name"] == "ArrayType"]
    sealed_bound = bool(at) and any(b.endswith("::Sealed") for b in at[0].get("bounds") or [])
    st = [t for p, t in db.traits.items() if p.split("::")[-1] == "Sealed"]
    hidden = bool(st) and not st[0]["vis"]["exported"]
    impls = sorted(tstr(i["self"]) for i in db.impls_of("ArrayLength"))
    only3 = impls == sorted(["typenum::UTerm", "typenum::UInt<N, typenum::B0>", "typenum::UInt<N, typenum::B1>"]) or len(impls) == 3
    sealed_impls = sorted(tstr(i["self"]) for i in db.impls if i.get("trait", "").split("::")[-1] == "Sealed")
    ctx.ob(rule, "ArrayLength", sup and sealed_bound and hidden and only3,
           "Unsigned supertrait: %s; ArrayType<T>: Sealed: %s; Sealed not exported: %s; ArrayLength impls: %s; Sealed impls: %s" % (sup, sealed_bound, hidden, impls, sealed_impls), at=tr["at"], cfg=cfg)


def check_lifetime_sweep(ctx, cfg):
    rule = "C12.L"
    db = ctx.db(cfg)
    n = 0
    for b in db.bodies:
        if b["kind"] not in ("Fn", "AssocFn") or "sig" not in b:
            continue
        manufactures = False
        for blk in b["mir"]["blocks"]:
            for s in blk["stmts"]:
                if s["k"] == "assign" and s["rv"].get("k") == "cast" and s["rv"]["ck"] in ("PtrToPtr", "Transmute"):
                    manufactures = True
                if s["k"] == "assign" and s["rv"].get("k") == "ref" and s["rv"]["p"]["p"] and s["rv"]["p"]["p"][-1] == "*":
                    pass
            t = blk["term"]
            if t["k"] == "call" and t["f"].get("k") == "fn" and t["f"]["def"] in ("core::slice::from_raw_parts", "core::slice::from_raw_parts_mut", "core::mem::transmute"):
                manufactures = True
        if not manufactures:
            continue
        st, det = lifetime_linkage(db, b)
        if st is None:
            continue
        ctx.ob(rule, b["key"], st, det, at=b["at"], cfg=cfg, frozen=False if st else True)
        n += 1
    ctx.floor(rule, "reference-manufacturing functions with a reference result (%s)" % cfg, n, 4)


def check_length_relating_impls(ctx, cfg):
    """C12.E: an impl of a comparison trait that relates two GenericArray types - however wrapped: references, Box, nested - relates arrays of
    the SAME length: the length arguments of every GenericArray in the Self type and in the trait's type arguments are one and the same type term.
    (An impl with an independent second length makes `a == b` type-check for arrays of different lengths.) Universal over the crate's impls."""
    rule = "C12.E"
    db = ctx.db(cfg)
    n = 0

    def gas(t, out, depth=0):
        if not isinstance(t, dict) or depth > 8:
            return
        if is_ga(t):
            out.append(t)
        for x in (t.get("args") or []):
            if isinstance(x, dict) and x.get("k") != "region":
                gas(x, out, depth + 1)
        if isinstance(t.get("t"), dict):
            gas(t["t"], out, depth + 1)
        for x in (t.get("ts") or []):
            gas(x, out, depth + 1)
    for imp in db.impls:
        tr = imp.get("trait")
        if tr not in ("core::cmp::PartialEq", "core::cmp::PartialOrd", "core::cmp::Eq", "core::cmp::Ord"):
            continue
        left, right = [], []
        gas(imp["self"], left)
        for x in imp.get("trait_args", [])[1:]:
            gas(x, right)
        if not left or not right:
            continue   # one side has no static length (a slice, a Vec): nothing to tie
        outer_l = tstr(adt_args(left[0])[1])
        outer_r = tstr(adt_args(right[0])[1])
        ok = outer_l == outer_r
        ctx.ob(rule, db.impl_key(imp), ok, "%s for %s with %s: outermost array lengths `%s` and `%s` are the same term: %s" % (
            tr.split("::")[-1], imp["self_s"], ", ".join(tstr(x) for x in imp.get("trait_args", [])[1:]), outer_l, outer_r, ok), at=imp["at"], cfg=cfg, frozen=False)
        n += 1
    ctx.ob(rule, "sweep (%s)" % cfg, n >= 1, "comparison impls relating two GenericArray types: %d" % n, cfg=cfg)
    return n

def check_tuple_impls(ctx, cfg):
    """C12.T: every conversion impl between a tuple type and a GenericArray relates a k-tuple to an array whose length is the literal k, and every
    field of the tuple has the array's element type. The bodies no longer have to go through `from_array` / `into_array` (whose `Const<U>: IntoArrayLength`
    bound ties the two today), so the tie is checked on the impl headers themselves - a macro table row with a name missing is a wrong-length
    conversion that type-checks. Universal over the crate's impls; the compile-time corpus only sees the arities it was generated for."""
    from ..tys import TyEnv
    rule = "C12.T"
    db = ctx.db(cfg)
    n = 0
    te = TyEnv()
    for imp in db.impls:
        tr = imp.get("trait")
        if tr not in ("core::convert::From", "core::convert::Into", "core::convert::TryFrom", "core::convert::TryInto"):
            continue
        others = [x for x in imp.get("trait_args", [])[1:] if isinstance(x, dict) and x.get("k") != "region"]
        if not others:
            continue
        a_, b_ = imp["self"], others[0]
        for tup, arr in ((a_, b_), (b_, a_)):
            t0 = tup
            while isinstance(t0, dict) and t0.get("k") == "ref":
                t0 = t0.get("t")
            r0 = arr
            while isinstance(r0, dict) and (r0.get("k") == "ref" or (r0.get("k") == "adt" and r0["def"] == "alloc::boxed::Box")):
                r0 = r0.get("t") if r0.get("k") == "ref" else adt_args(r0)[0]
            if not (isinstance(t0, dict) and t0.get("k") == "tuple" and t0.get("ts") and is_ga(r0)):
                continue
            arity = len(t0["ts"])
            L = te.length(adt_args(r0)[1])
            lit = L.const_value() if L.is_const() else None
            el = tstr(adt_args(r0)[0])
            same = all(tstr(x) == el for x in t0["ts"])
            ok = lit == arity and same
            ctx.ob(rule, db.impl_key(imp), ok, "%s between a %d-tuple and %s: array length literal %s equals the arity: %s; every tuple field has the element type %s: %s" % (
                tr.split("::")[-1], arity, tstr(r0), lit, lit == arity, el, same), at=imp["at"], cfg=cfg, frozen=False)
            n += 1
            break
    ctx.floor(rule, "tuple conversion impls (%s)" % cfg, n, 24)
    return n


def check_corpus(ctx):
    rule = "C12.W"
    twins = build_corpus(ctx.tier)
    cfgs = sorted({t.cfg for t in twins})
    ctx.need(*cfgs)
    stable = None
    if ctx.tier == "thorough":
        stable = {}
        for c in cfgs:
            sb = R.StableBuild(c)
            sb.run()
            stable[c] = sb
    try:
        results = run_twins(twins, {c: ctx.builds[c] for c in cfgs}, stable)
    finally:
        if stable:
            for sb in stable.values():
                sb.cleanup()
    by = {}
    for r in results:
        by[(r["twin"], r["toolchain"], r["kind"])] = r
    n_ok = 0
    for t in twins:
        for tc in ("nightly", "stable"):
            if (t.name, tc, "accept") not in by:
                continue
            ok, det = judge(t, by[(t.name, tc, "accept")], by[(t.name, tc, "reject")])
            ctx.ob(rule, "%s@%s" % (t.name, tc), ok, det, cfg=t.cfg)
            n_ok += ok
    ctx.floor(rule, "accept/reject twins", len(twins), 120)
    for t in twins[:4] + twins[60:62]:
        ctx.sample({"rule": rule, "twin": t.name, "reject_program": t.reject, "expected_codes": sorted(t.codes)})
    ctx.extra["programs"] = len(results)
    ctx.extra["twins"] = len(twins)
    ctx.extra["toolchains"] = sorted({r["toolchain"] for r in results})


def check(ctx):
    ctx.explanation = EXPLANATION
    ctx.trusted = ["rustc's type checker, trait solver and borrow checker (they are the oracle)"]
    ctx.assumptions = ["programs outside the corpus are covered only by the universal rules C12.A/C/S/L"]
    cfgs = ["F0", "F1", "F1N"]
    ctx.need(*cfgs)
    for cfg in cfgs:
        check_auto_impls(ctx, cfg)
        check_copy_clone(ctx, cfg)
        check_sealed(ctx, cfg)
        check_lifetime_sweep(ctx, cfg)
        check_length_relating_impls(ctx, cfg)
        check_tuple_impls(ctx, cfg)
        # "converting to a .. flattened array of the wrong length": the by-value unflatten relates its lengths by a rounding-down division only, so
        # for a length that is not a multiple the refusal is the size comparison in front of the reinterpretation, not the type checker - that
        # it is still there (C11.E, the domain clause) is what stands in for the type error
        from . import c11 as _c11
        _c11.check_owned(ctx, cfg)
    check_corpus(ctx)
