"""C13 - comparison, hashing and Debug agree with the slice of the same elements.

Rule C13.D (pure delegation): each impl body consists of full views of its parameters and exactly
one call to the *same trait method* on `[T]`, arguments in parameter order, result returned unchanged.
Rule C13.B: Borrow/BorrowMut/AsRef/AsMut<[T]> return that same full view.
Premise C02.V: the view constructors themselves return (address of self, N elements).
"""

from ..core import PROVED, REFUTED, UNKNOWN
from ..rules import check_views, payload_calls, is_full_view, vstr, self_len, through_ref
from ..tys import tstr
from ..poly import Poly

EXPLANATION = (
    "Static delegation check on the MIR of the five comparison/hash/Debug impls and the four slice-borrow impls "
    "(configs F0 and F1): the abstract interpreter computes the value of every call argument as (base object, byte offset, "
    "slice length); an impl passes iff its only effectful call is the same trait method resolved for [T], its arguments are "
    "the full N-element views of self/other in parameter order, and the call's result is returned unmodified. "
    "The view constructors (as_slice, as_mut_slice, Deref, DerefMut) are checked to return (self, N). "
    "What is decided: the impls ARE the slice impls on the same memory; what [T]'s impls print/compare is trusted std.")

BINARY = [
    ("<GenericArray<$0,$1> as core::cmp::PartialEq<GenericArray<$0,$1>>>::eq", "core::cmp::PartialEq::eq", "core::iter::Iterator::eq"),
    ("<GenericArray<$0,$1> as core::cmp::PartialOrd<GenericArray<$0,$1>>>::partial_cmp", "core::cmp::PartialOrd::partial_cmp", "core::iter::Iterator::partial_cmp"),
    ("<GenericArray<$0,$1> as core::cmp::Ord>::cmp", "core::cmp::Ord::cmp", "core::iter::Iterator::cmp"),
]
UNARY = [
    ("<GenericArray<$0,$1> as core::hash::Hash>::hash", "core::hash::Hash::hash"),
    ("<GenericArray<$0,$1> as core::fmt::Debug>::fmt", "core::fmt::Debug::fmt"),
]
BORROWS = [
    "<GenericArray<$0,$1> as core::borrow::Borrow<[$0]>>::borrow",
    "<GenericArray<$0,$1> as core::borrow::BorrowMut<[$0]>>::borrow_mut",
    "<GenericArray<$0,$1> as core::convert::AsRef<[$0]>>::as_ref",
    "<GenericArray<$0,$1> as core::convert::AsMut<[$0]>>::as_mut",
]


def elem_slice_ok(a, cs):
    """The callee's Self type is [T] (or &[T], whose impls forward to [T]'s) for the impl's element type T.
    Returns 0 if not, else 1 + the number of reference layers."""
    t = cs.targs[0] if cs.targs else None
    layers = 0
    while t is not None and t.get("k") == "ref":
        t = t["t"]
        layers += 1
    if t is None or t.get("k") != "slice" or layers > 1:
        return 0
    self_t = a.body["impl_self"]
    return 1 + layers if tstr(t["t"]) == tstr(self_t["args"][0]) else 0


EQUAL = ("A", ("adt", "core::cmp::Ordering", 1), ())
SOME_EQUAL = ("A", ("adt", "core::option::Option", 1), (EQUAL,))


def lexicographic_loop(a, method, n):
    """cmp / partial_cmp written as the lexicographic loop over the two full views (both have N elements, so this IS the slice comparison):
    for (l, r) in self.iter().zip(other) { match cmp(l, r) { Equal => continue, non_eq => return non_eq } } Equal.
    Returns None if the body has no such loop at all, else (ok, detail)."""
    from ..loops import find_loops
    lps = [lp for lp in find_loops(a) if isinstance(lp.pipe, tuple) and len(lp.pipe) == 5 and lp.pipe[:3] == ("V", "iter", "zip")]
    if len(lps) != 1:
        return None
    lp = lps[0]
    partial = method.endswith("partial_cmp")
    want_const = SOME_EQUAL if partial else EQUAL

    def full(side, base):
        if isinstance(side, tuple) and len(side) == 5 and side[:3] == ("V", "iter", "slice"):
            return is_full_view(side[3], base, n)
        return isinstance(side, tuple) and side and side[0] == "P" and is_full_view(side, base, n)
    sides = full(lp.pipe[3], ("arg", 1)) and full(lp.pipe[4], ("arg", 2)) and not lp.backward
    calls = [c for c in lp.calls() if c.fn == method]
    once = lp.count_on_paths(lambda c: c.fn == method) == {1}
    pay = lp.payload
    args_ok = len(calls) == 1 and pay[0] == "A" and pay[1] == "tuple" and len(pay[2]) == 2 and calls[0].args[0] == pay[2][0] and calls[0].args[1] == pay[2][1]
    others = [c.fn for c in lp.calls() if c.fn != method and not a.is_pure(c) and not getattr(c, "no_effects", False) and not c.fn.startswith("core::panicking::")]
    cont_ok = brk_ok = ret_ok = False
    if len(calls) == 1:
        c = calls[0]
        inner = ("V", "proj", ("proj", c.ret, (("v", 1), 0))) if partial else c.ret

        def is_equal(fs):
            # switch facts carry discriminant VALUES: Ordering::Equal has discriminant 0 (Less = -1, Greater = 1); Some = 1
            if partial:
                return ("variant", c.ret, 1) in fs and ("variant", inner, 0) in fs
            return ("variant", c.ret, 0) in fs
        backs = [(x, lp.nxt.bb) for x in lp.blocks if lp.nxt.bb in a.edges.get(x, [])]
        cont_ok = bool(backs) and all(all(is_equal(fs) for fs in a.edge_facts.get(e, [])) and a.edge_facts.get(e) for e in backs)
        # leaving the loop in the middle of a step: only with a result that is not Equal, and that result is what is returned
        brk_ok = bool(lp.breaks) and all(not any(is_equal(fs) for fs in a.edge_facts.get(e, [frozenset()])) for e in lp.breaks)
        after_none = set()
        work = list(lp.none_targets)
        while work:
            x = work.pop()
            if x in after_none or a.blocks[x]["cleanup"]:
                continue
            after_none.add(x)
            work.extend(a.edges.get(x, []))
        ret_ok = bool(a.returns)
        for r in a.returns:
            v = r["val"]
            if v == want_const:
                continue  # after exhausting both views (or the N == 0 shortcut): equal sequences of equal length
            if v == c.ret and not is_equal(r["facts"]):
                continue
            if v[0] == "V" and v[1] == "phi":
                # merged return value: every assignment to the return place is one of the two forms
                vals = [s_["val"] for s_ in a.assigns if s_["cell"] == (("local", 0), ())]
                if vals and all(x == want_const or x == c.ret for x in vals):
                    continue
            ret_ok = False
    ok = sides and once and args_ok and not others and cont_ok and brk_ok and ret_ok
    return ok, ("lexicographic loop over zip(full view of self, full view of other): %s; one %s(l, r) per step on the paired items: %s/%s; the next pair is taken only when the result is Equal: %s; "
                "any other result leaves the loop: %s and is returned, Equal is returned after the last pair: %s; no other effectful call: %s"
                % (sides, method.split("::")[-1], once, args_ok, cont_ok, brk_ok, ret_ok, not others))


def check_delegate(ctx, cfg, key, method, alt, nargs):
    rule = "C13.D"
    b = ctx.body(cfg, key, rule)
    if b is None:
        return
    a = ctx.analysis(cfg, key)
    n = self_len(a)
    pc = payload_calls(a)
    names = [c.fn for c in pc]
    detail = "payload calls: " + ", ".join("%s(%s)" % (c.fn, ", ".join(vstr(x) for x in c.args)) for c in pc)
    status = UNKNOWN
    why = ""
    if len(pc) == 1 and pc[0].fn == method:
        c = pc[0]
        ok_self = elem_slice_ok(a, c)
        a0 = through_ref(a, c, 0) if ok_self == 2 else c.args[0]
        ok0 = is_full_view(a0, ("arg", 1), n)
        if nargs == 2:
            a1 = through_ref(a, c, 1) if ok_self == 2 else c.args[1]
            ok1 = is_full_view(a1, ("arg", 2), n)
        else:
            ok1 = c.args[1][0] == "P" and c.args[1][1] == ("arg", 2) and not c.args[1][2].t
        ok_ret = bool(a.returns) and all(r["val"] == c.ret for r in a.returns)
        if not ok_ret:
            # a short cut for N == 0 that returns what the slice method returns for two empty slices (equal / Equal / Some(Equal)) without calling
            # it: judged per return path of the tree-shaped body - the call's own result, or that constant under N == 0
            at_ = ctx.analysis_inl(cfg, key, split=True)
            cs_t = [x for x in at_.calls if x.fn == method]
            EQ = ("A", ("adt", "core::cmp::Ordering", 1), ())
            empties = {"core::cmp::PartialEq::eq": [("B", ("const", 1))], "core::cmp::Ord::cmp": [EQ],
                       "core::cmp::PartialOrd::partial_cmp": [("A", ("adt", "core::option::Option", 1), (EQ,))]}.get(method, [])
            n_t = self_len(at_)
            ok_ret = bool(at_.returns) and bool(cs_t) and all(
                any(r["val"] == x.ret for x in cs_t) or (r["val"] in empties and n_t is not None and at_.prove(r["facts"], "Eq", n_t, Poly.const(0))) for r in at_.returns)
        if ok_self and ok0 and ok1 and ok_ret:
            status = PROVED
        else:
            status = REFUTED
            why = "callee Self=[T]: %s, arg0 full view of self: %s, arg1 %s: %s, result returned unchanged: %s" % (
                bool(ok_self), ok0, "full view of other" if nargs == 2 else "is the 2nd parameter", ok1, ok_ret)
    elif alt and sorted(names) == sorted(["core::slice::<impl [T]>::iter", "core::slice::<impl [T]>::iter", alt]):
        its = [c for c in pc if c.fn == "core::slice::<impl [T]>::iter"]
        fin = [c for c in pc if c.fn == alt][0]
        ok = (is_full_view(its[0].args[0], ("arg", 1), n) and is_full_view(its[1].args[0], ("arg", 2), n)
              and fin.args[0] == its[0].ret and fin.args[1] == its[1].ret and all(r["val"] == fin.ret for r in a.returns))
        status = PROVED if ok else REFUTED
        why = "iterator form: operands must be the full views in parameter order"
    elif method == "core::fmt::Debug::fmt" and sorted(names) == sorted(["core::fmt::Formatter::<'a>::debug_list", "core::slice::<impl [T]>::iter", "core::fmt::DebugList::<'a, 'b>::entries", "core::fmt::DebugList::<'a, 'b>::finish"]):
        # the body of core's `impl Debug for [T]`, written out: f.debug_list().entries(self.iter()).finish()
        by = {c.fn.split("::")[-1]: c for c in pc}
        dl, it_, en, fi = by["debug_list"], by["iter"], by["entries"], by["finish"]
        ok = (dl.args[0][0] == "P" and dl.args[0][1] == ("arg", 2) and not dl.args[0][2].t and is_full_view(it_.args[0], ("arg", 1), n)
              and en.args[1] == it_.ret and a.dominates(dl.bb, en.bb) and a.dominates(en.bb, fi.bb) and all(r["val"] == fi.ret for r in a.returns))
        status = PROVED if ok else REFUTED
        why = "debug_list().entries(iter over the full view of self).finish() - the body of core's Debug for [T]"
    elif nargs == 2 and method in ("core::cmp::Ord::cmp", "core::cmp::PartialOrd::partial_cmp") and lexicographic_loop(ctx.analysis_inl(cfg, key, split=True), method, n) is not None:
        ok, why = lexicographic_loop(ctx.analysis_inl(cfg, key, split=True), method, n)
        status = PROVED if ok else REFUTED
    else:
        # a different delegate (e.g. hash_slice, a manual loop, reversed iteration): not provably the slice impl
        status = REFUTED if any(c.fn == method for c in pc) else UNKNOWN
        why = "expected exactly one call to %s on the full views" % method
    ctx.ob(rule, key, status, (why + "; " if why else "") + detail, at=b["at"], cfg=cfg)
    ctx.sample({"rule": rule, "fn": key, "cfg": cfg, "calls": detail, "status": status})


def check(ctx):
    ctx.explanation = EXPLANATION
    ctx.trusted = ["rustc type checker / MIR construction / trait resolution (Instance::try_resolve)",
                   "core's PartialEq/PartialOrd/Ord/Hash/Debug impls for [T]"]
    ctx.assumptions = ["formatted text and comparison results are those of the [T] impls (not re-derived)"]
    cfgs = ["F0", "F1", "F1N"] if ctx.tier == "quick" else ["F0", "F1", "F1N", "F2", "F0N", "F2N"]
    ctx.need(*cfgs)
    n = 0
    for cfg in cfgs:
        check_views(ctx, cfg)
        for key, m, alt in BINARY:
            check_delegate(ctx, cfg, key, m, alt, 2)
            n += 1
        for key, m in UNARY:
            check_delegate(ctx, cfg, key, m, None, 1)
            n += 1
        # every OTHER method the comparison impls override (lt / le / gt / ge, ne, max / min ..): an override replaces the provided method
        # that is derived from partial_cmp / eq / cmp, so it must itself be the slice's method of the same name on the two full views -
        # `le` written as `!gt` is right for total orders only
        db = ctx.db(cfg)
        done = {k for k, _m, _a in BINARY} | {k for k, _m in UNARY}
        for imp in db.impls:
            tr = imp.get("trait")
            if tr not in ("core::cmp::PartialEq", "core::cmp::PartialOrd", "core::cmp::Ord") or not (imp["self"].get("k") == "adt" and imp["self"]["def"] == "GenericArray"):
                continue
            rhs = [x for x in imp.get("trait_args", [])[1:] if x.get("k") != "region"]
            if rhs and not (rhs[0].get("k") == "adt" and rhs[0]["def"] == "GenericArray"):
                continue   # comparisons with other types are not C13's subject
            for it_ in imp["items"]:
                key = db.impl_key(imp) + "::" + it_["name"]
                if key in done or db.get(key) is None:
                    continue
                check_delegate(ctx, cfg, key, tr + "::" + it_["name"], None, 2)
        # Hash::hash_slice is what `[A]`, `Vec<A>`, `[A; K]` and nested arrays feed a hasher through when their ELEMENTS are GenericArrays: the provided
        # method hashes each piece with `hash` (length prefix included), in order. An override replaces it, so it must do exactly that - each
        # element of the whole slice handed to the array's own `hash` with the caller's hasher, once, front to back (a flattening `T::hash_slice`
        # drops the per-array length prefixes: the slice of arrays then hashes differently from the slice of their Borrow<[T]> forms)
        for imp in db.impls:
            if imp.get("trait") != "core::hash::Hash" or not (imp["self"].get("k") == "adt" and imp["self"]["def"] == "GenericArray"):
                continue
            for it_ in imp["items"]:
                key = db.impl_key(imp) + "::" + it_["name"]
                if it_["name"] == "hash" or db.get(key) is None:
                    continue
                hb = db.get(key)
                ok, det = False, "an override of Hash::%s: not a method whose provided form is known here" % it_["name"]
                if it_["name"] == "hash_slice":
                    from ..rules import visits_all
                    from ..poly import Poly
                    ha = ctx.analysis(cfg, key)
                    ok, det = visits_all(ctx, cfg, ha, ("arg", 1), Poly.atom(("len", ("arg", 1))), "core::hash::Hash::hash", "\0", "\0")
                    sinks = [c for c in ha.calls if c.fn == "core::hash::Hash::hash"]
                    for cb_ in db.bodies:
                        if cb_.get("root") == hb["path"] and cb_["kind"] == "Closure":
                            sinks += [c for c in ctx.analysis(cfg, cb_["key"]).calls if c.fn == "core::hash::Hash::hash"]
                    own = bool(sinks) and all(c.targs and tstr(c.targs[0]) == tstr(imp["self"]) for c in sinks)
                    det = "hash_slice override: every piece of the whole slice goes to the array's own `hash`, once, in order: %s (%s); the sink is <Self as Hash>::hash: %s" % (ok, det, own)
                    ok = ok and own
                ctx.ob("C13.D", key, ok, det, at=hb["at"], cfg=cfg, frozen=False)
        for key in BORROWS:
            b = ctx.body(cfg, key, "C13.B")
            if b is None:
                continue
            a = ctx.analysis(cfg, key)
            ln = self_len(a)
            ok = bool(a.returns) and all(is_full_view(r["val"], ("arg", 1), ln) for r in a.returns)
            ctx.ob("C13.B", key, ok, "returns " + ", ".join(vstr(r["val"]) for r in a.returns), at=b["at"], cfg=cfg)
            n += 1
    ctx.floor("C13", "delegation+borrow instances", n, 9 * len(cfgs))
