"""C16 - every heap block is requested validly, freed once with its layout, never leaked."""

import os
import tempfile

from ..core import PROVED, REFUTED, UNKNOWN, MISSING, VERIF
from ..facts import Facts
from ..absint import analyze
from ..poly import Poly, prove
from ..rules import vstr, fstr
from ..typestate import Classifier
from ..tys import tstr, pointee, adt_args, is_ga

EXPLANATION = (
    "Static heap-ownership rules on the MIR of the alloc feature (config F1; F2 in thorough). The crate may touch the allocator directly only through raw `alloc::alloc::*` calls and transfers raw ownership "
    "only through Box::into_raw / Box::from_raw; everything else is Box / Vec (trusted). C16.Z: every raw alloc(layout) is reachable only where the dominating facts imply size(layout) != 0 "
    "(size = N * size_of T symbolically, so a guard on size_of T alone leaves N = 0 uncovered); C16.N: the returned pointer reaches a dereference only on the non-null edge of an is_null test whose other edge "
    "diverges into handle_alloc_error; C16.U: between a raw alloc and the Box::from_raw that gives the block an owner no call that can run foreign code occurs (else a panic leaks the block); "
    "C16.P: at every into_raw -> from_raw (and alloc -> from_raw) hand-over the pointer given back is the pointer taken (same base, offset 0) and source and target pointees have equal symbolic size under the dominating facts "
    "and the same element alignment, so each block is released with the layout it was requested with; C16.F: every raw dealloc(ptr, layout) releases a block this function took over (into_raw / leak / alloc) with exactly that layout, only where the layout's size is provably non-zero, and once; C16.A: no other allocator entry point is called; C16.E: allocation APIs that report failure as a value (try_reserve*, Box::try_new*, Vec::try_with_capacity, Allocator::allocate ..) are used only where failure diverges through handle_alloc_error - no normal return is reachable without the request being known to have succeeded. Because the repaired tree contains no raw alloc site, the Z/N/U rules are also run on a "
    "positive fixture (fixtures/c16_raw_alloc) on which they must fire, so a pass is never vacuous.")

RAW_ALLOC = ("alloc::alloc::alloc", "alloc::alloc::alloc_zeroed", "alloc::alloc::realloc", "alloc::alloc::dealloc")


def raw_alloc_rules(db, body, emit):
    """Z / N / U on one body. emit(rule, key, status, detail, at)"""
    a = analyze(db, body)
    cl = Classifier(db)
    allocs = [c for c in a.calls if c.fn in ("alloc::alloc::alloc", "alloc::alloc::alloc_zeroed")]
    for i, c in enumerate(allocs):
        site = "%s#alloc#%d" % (body["key"], i)
        lay = c.args[0]
        # Z: non-zero size
        if lay[0] == "V" and len(lay) == 4 and lay[1] == "layout":
            size = lay[2]
            nz = prove(("!=", size), a.poly_facts(c.facts))
            emit("C16.Z", site, PROVED if nz else REFUTED,
                 "alloc(Layout of %s) requested with size %r under %s: non-zero size %s" % (lay[3], size, fstr(c.facts), "proved" if nz else "NOT implied (e.g. N = 0 with a non-zero-sized element gives a zero-size request, which is undefined behaviour and the block is never freed)"), c.at)
        else:
            emit("C16.Z", site, UNKNOWN, "layout argument not understood: %s" % vstr(lay), c.at)
        base = c.ret[1] if c.ret[0] == "P" else None
        # N: every dereference / from_raw of the block is dominated by a null test that diverges on null
        nulls = [n for n in a.calls if n.fn.endswith("::is_null") and n.args[0][0] == "P" and (n.args[0][1] == base)]
        hae = [h for h in a.calls if h.fn == "alloc::alloc::handle_alloc_error"]
        uses = [d for d in a.derefs if d["ptr"][0] == "P" and _derived(d["ptr"][1], base)]
        ok_n = bool(nulls) and bool(hae) and bool(uses) and all(any(("b", n.ret[1], False) in d["facts"] for n in nulls) for d in uses)
        emit("C16.N", site, PROVED if ok_n else REFUTED,
             "null test on the returned pointer: %d, handle_alloc_error calls: %d, dereferences of the block: %d - %s" % (
                 len(nulls), len(hae), len(uses), "every use is on the non-null edge" if ok_n else "the block is dereferenced without a null check (allocation failure would touch the null block)"), c.at)
        # U: foreign calls while the block is raw-owned
        owners = [f for f in a.calls if f.fn.startswith("alloc::boxed::Box::<T>::from_raw") and f.args[0][0] == "P" and _derived(f.args[0][1], base)]
        foreign = []
        for f in a.calls:
            if f.bb == c.bb or not a.reaches(c.bb, f.bb):
                continue
            if cl.classify(f, body) != "foreign":
                continue
            if owners and all(a.dominates(o.bb, f.bb) for o in owners):
                continue
            foreign.append(f.fn)
        emit("C16.U", site, PROVED if not foreign and owners else REFUTED,
             ("the block gets its owner (Box::from_raw) before any call that can run foreign code" if not foreign and owners else
              "calls that can unwind while the block is owned only by a raw pointer: %s (a panic leaks the block)" % sorted(set(foreign))), c.at)
    # ---- raw releases: dealloc(ptr, layout)
    deallocs = [c for c in a.calls if c.fn == "alloc::alloc::dealloc"]
    for i, c in enumerate(deallocs):
        site = "%s#dealloc#%d" % (body["key"], i)
        lay = c.args[1] if len(c.args) > 1 else None
        if not (lay is not None and lay[0] == "V" and len(lay) == 4 and lay[1] == "layout"):
            emit("C16.F", site, UNKNOWN, "layout argument of dealloc not understood: %s" % vstr(lay), c.at)
            continue
        size = lay[2]
        pf = a.poly_facts(c.facts)
        # F1: a block of size 0 was never requested: releasing "it" hands the allocator a zero-size layout (and a pointer it never returned)
        nz = prove(("!=", size), pf)
        # F2: the block released is one this function took over (Box::into_raw / Box::leak / alloc) with exactly this layout
        p = c.args[0]
        srcs = [s for s in a.calls if ((s.fn.endswith("::into_raw") or s.fn.endswith("::leak")) and "Box::<T" in s.fn or s.fn in ("alloc::alloc::alloc", "alloc::alloc::alloc_zeroed"))
                and s.ret[0] == "P" and p[0] == "P" and s.ret[1] == p[1] and a.dominates(s.bb, c.bb)]
        same = False
        sdet = "not fed by a Box::into_raw / alloc of the same block"
        if srcs and not p[2].t:
            s0 = srcs[0]
            if s0.fn.startswith("alloc::alloc::"):
                ssz = s0.args[0][2] if s0.args[0][0] == "V" and s0.args[0][1] == "layout" else None
            else:
                st_ = s0.targs[0]
                ssz = (s0.args[0][3] * a.tenv.size(st_["t"])) if st_.get("k") == "slice" and s0.args[0][3] is not None else a.tenv.size(st_)
            same = ssz is not None and prove(("==", ssz - size), pf)
            sdet = "taken over by %s with %r bytes, released with %r bytes: equal %s" % (s0.fn.split("::")[-1], ssz, size, same)
        # F3: released at most once: no second dealloc / owner of the same block reachable
        again = [d for d in deallocs if d is not c and d.args[0][0] == "P" and d.args[0][1] == p[1] and (a.reaches(c.bb, d.bb) or a.reaches(d.bb, c.bb))]
        reown = [f for f in a.calls if (f.fn.endswith("::from_raw") and "Box::<T" in f.fn) and f.args[0][0] == "P" and f.args[0][1] == p[1] and (a.reaches(c.bb, f.bb) or a.reaches(f.bb, c.bb))]
        ok = nz and same and not again and not reown
        emit("C16.F", site, PROVED if ok else REFUTED,
             "dealloc with a layout of %r bytes under %s: non-zero size %s; %s; released once (no second release / re-owning of the block on the same path): %s" % (
                 size, fstr(c.facts), "proved" if nz else "NOT implied (e.g. N = 0 with a non-zero-sized element: a zero-size layout for a block that was never requested)", sdet, not again and not reown), c.at)
    return len(allocs) + len(deallocs)


def _derived(base, root, depth=0):
    if root is None:
        return False
    if base == root:
        return True
    if depth == 0 and isinstance(base, tuple) and len(base) == 2 and base[0] == "obj" and isinstance(base[1], tuple) and base[1] and base[1][0] == "phi":
        return True  # a pointer merged from several sources downstream of the allocation (conservatively: may be the block)
    if depth > 6 or not isinstance(base, tuple):
        return False
    # phi / obj wrappers around the allocation result
    return any(_derived(x, root, depth + 1) for x in base if isinstance(x, tuple))


FALLIBLE_ALLOC = ("::try_reserve", "::try_reserve_exact", "::try_with_capacity", "::try_new", "::try_new_uninit", "::try_new_zeroed", "::try_new_uninit_slice",
                  "::try_new_zeroed_slice", "::try_pin", "::try_clone_from_ref", "core::alloc::Allocator::allocate", "core::alloc::Allocator::allocate_zeroed",
                  "core::alloc::Allocator::grow", "core::alloc::GlobalAlloc::alloc")


def is_fallible_alloc(fn):
    return fn.startswith(("alloc::", "core::alloc::")) and any(fn.endswith(x) or (x + "_in") in fn for x in FALLIBLE_ALLOC)


def fallible_alloc_rule(db, body, emit):
    """C16.E: an allocation API that REPORTS failure as a value (try_reserve*, Box::try_new*, Vec::try_with_capacity, Allocator::allocate ..) may only be used
    when the failure ends through handle_alloc_error: no function exit (normal return) may be reachable from the call unless it is known, on that path,
    that the request succeeded - and every path on which it failed must reach handle_alloc_error. Judged on the tree-shaped body (path-exact facts)."""
    from ..mirxf import treeify
    a = analyze(db, treeify(body))
    sites = [c for c in a.calls if is_fallible_alloc(c.fn)]
    for i, c in enumerate(sites):
        site = "%s#%s#%d" % (body["key"], c.fn.split("::")[-1], i)
        hae = [h for h in a.calls if h.fn == "alloc::alloc::handle_alloc_error"]
        bad = []
        for r in a.returns:
            if not (c.bb == r["bb"] or a.reaches(c.bb, r["bb"])):
                continue
            succeeded = ("variant", c.ret, 0) in r["facts"] or ("b", ("is_ok", c.ret), True) in r["facts"] or ("b", ("is_some", c.ret), True) in r["facts"]
            if not succeeded:
                bad.append("return at bb%d under %s" % (r["bb"], fstr(r["facts"])[:160]))
        ok = not bad
        emit("C16.E", site, PROVED if ok else REFUTED,
             ("%s reports allocation failure as a value; every function exit reachable from it is on a path where the request is known to have succeeded (failure diverges; handle_alloc_error calls: %d)" % (c.fn, len(hae))) if ok else
             ("%s reports allocation failure as a value, and the function can return normally without that request being known to have succeeded (the failure does not end through the standard allocation-error path): %s" % (c.fn, "; ".join(bad[:3]))), c.at)
    return len(sites)


HEAP_OWNERS = ("alloc::boxed::Box", "alloc::vec::Vec")


def _holds_heap(t, depth=0):
    if not isinstance(t, dict) or depth > 6:
        return False
    if t.get("k") == "adt":
        if t["def"] in HEAP_OWNERS:
            return True
        if t["def"] in ("core::mem::ManuallyDrop", "core::mem::MaybeUninit", "core::option::Option"):
            return any(_holds_heap(x, depth + 1) for x in t.get("args", []) if x.get("k") != "region")
    return False


def suppressed_owner_rule(db, emit):
    """C16.M: a `ManuallyDrop<Box<..>>` / `ManuallyDrop<Vec<..>>` takes the release of a heap block out of the compiler's hands. Where such a value
    is released by hand inside a `Drop::drop` (ManuallyDrop::drop / take / into_inner), the release must also be reached when an earlier call of
    that body unwinds: a call that can run caller code (an element destructor, drop_in_place of generic storage) before the release, whose unwind
    path does not pass a release, leaves the block allocated after all values are gone. (A plain `Box` field is released by the drop glue after
    `Drop::drop`, also during unwinding - that is the form that needs nothing.)  Returns the number of release sites judged."""
    from ..typestate import Classifier
    from ..mirxf import normal_succs
    cl = Classifier(db)
    n = 0
    rel_fns = ("core::mem::ManuallyDrop::<T>::drop", "core::mem::ManuallyDrop::<T>::take", "core::mem::ManuallyDrop::<T>::into_inner")
    for b in db.bodies:
        if b.get("impl_trait") != "core::ops::Drop" or b["kind"] != "AssocFn":
            continue
        blocks = b["mir"]["blocks"]
        rel = []
        for i, blk in enumerate(blocks):
            t = blk["term"]
            if t["k"] == "call" and t["f"].get("k") == "fn" and t["f"]["def"] in rel_fns:
                ta = [x for x in t["f"].get("args", []) if x.get("k") != "region"]
                if ta and _holds_heap(ta[0]):
                    rel.append(i)
        if not rel:
            continue
        n += len(rel)

        def reach(start, into_cleanup):
            seen, work = set(), [start]
            while work:
                x = work.pop()
                if x in seen:
                    continue
                seen.add(x)
                t = blocks[x]["term"]
                succ = list(normal_succs(t))
                if into_cleanup and isinstance(t.get("unwind"), dict):
                    succ.append(t["unwind"]["cleanup"])
                work.extend(succ)
            return seen
        normal_rel = [r for r in rel if not blocks[r].get("cleanup")]
        bad = []
        for i, blk in enumerate(blocks):
            t = blk["term"]
            if blk.get("cleanup") or t["k"] != "call" or i in rel:
                continue
            if cl.classify_raw(t, b) != "foreign":
                continue
            if not any(r in reach(i, False) for r in normal_rel):
                continue   # after the release, or on a path that never releases
            u = t.get("unwind")
            if isinstance(u, dict):
                if not any(r in reach(u["cleanup"], True) for r in rel):
                    bad.append((t["f"]["def"], t.get("at") or b["at"]))
            elif u == "continue":
                bad.append((t["f"]["def"], t.get("at") or b["at"]))   # unwinds straight out of the destructor: nothing is released
        for j, (fn, at) in enumerate(bad):
            emit("C16.M", "%s#release#%d" % (b["key"], j), REFUTED,
                 "%s can unwind before the hand-written release of the suppressed heap owner (ManuallyDrop<Box/Vec>) and its unwind path passes no release: the block stays allocated" % fn, at)
        if not bad:
            emit("C16.M", "%s#release" % b["key"], PROVED, "%d hand-written release(s) of a suppressed heap owner; no call that can unwind precedes them without a release on its unwind path" % len(rel), b["at"])
    return n


def check_raw_sites(ctx, cfg):
    db = ctx.db(cfg)
    n = 0
    for b in db.bodies:
        if b["kind"] not in ("Fn", "AssocFn", "Closure"):
            continue
        if not any(t["term"]["k"] == "call" and t["term"]["f"].get("k") == "fn" and t["term"]["f"]["def"] in RAW_ALLOC for t in b["mir"]["blocks"]):
            continue
        n += raw_alloc_rules(db, b, lambda rule, key, st, det, at: ctx.ob(rule, key, st, det, at=at, cfg=cfg, frozen=False if st == PROVED else True))
    ctx.ob("C16.A", "raw allocator call sites (%s)" % cfg, PROVED, "%d raw alloc::alloc::* call site(s) in the crate; each checked by C16.Z/N/U" % n, cfg=cfg)
    ne = 0
    for b in db.bodies:
        if b["kind"] in ("Fn", "AssocFn", "Closure") and any(t["term"]["k"] == "call" and t["term"]["f"].get("k") == "fn" and is_fallible_alloc(t["term"]["f"]["def"]) for t in b["mir"]["blocks"]):
            ne += fallible_alloc_rule(db, b, lambda rule, key, st, det, at: ctx.ob(rule, key, st, det, at=at, cfg=cfg))
    nm = suppressed_owner_rule(db, lambda rule, key, st, det, at: ctx.ob(rule, key, st, det, at=at, cfg=cfg, frozen=False if st == PROVED else True))
    ctx.ob("C16.M", "suppressed heap owners released by hand in a Drop impl (%s)" % cfg, PROVED, "%d release site(s) (ManuallyDrop::drop / take / into_inner of a Box / Vec inside Drop::drop); each judged against the unwind paths of the calls before it" % nm, cfg=cfg)
    ctx.ob("C16.E", "fallible allocation call sites (%s)" % cfg, PROVED, "%d call site(s) of allocation APIs that report failure as a value (try_reserve*, try_new*, try_with_capacity, Allocator::allocate ..); each must diverge through handle_alloc_error on failure" % ne, cfg=cfg)
    return n


def check_fixture(ctx, cfg):
    """The positive fixture must trip Z, N and U."""
    b = ctx.builds[cfg]
    src = os.path.join(VERIF, "fixtures", "c16_raw_alloc", "lib.rs")
    out = os.path.join(tempfile.mkdtemp(prefix="c16-", dir=b.dir), "facts.json")
    rc, diags, facts, stderr = b.compile_witness(src, out_facts=out, crate_name="c16_fixture")
    if rc != 0 or facts is None:
        ctx.ob("C16.fixture", "compile", MISSING, "positive fixture did not compile: %s" % stderr[-400:], cfg=cfg)
        return
    fdb = Facts(facts)
    got = []
    for body in fdb.bodies:
        if body["key"] == "raw_generate":
            raw_alloc_rules(fdb, body, lambda rule, key, st, det, at: got.append((rule, st)))
    fired = {r for r, st in got if st == REFUTED}
    ctx.ob("C16.fixture", "raw_generate", fired == {"C16.Z", "C16.N", "C16.U"}, "rules firing on the positive fixture: %s (required: Z, N and U)" % sorted(fired), cfg=cfg)
    gotf = []
    for body in fdb.bodies:
        if body["key"] == "unbox_by_hand":
            raw_alloc_rules(fdb, body, lambda rule, key, st, det, at: gotf.append((rule, st)))
    ctx.ob("C16.fixture", "unbox_by_hand", ("C16.F", REFUTED) in gotf, "C16.F on the fixture (manual release not guarded against N = 0): %s (required: refuted)" % gotf, cfg=cfg)
    gote = {}
    for body in fdb.bodies:
        if body["key"] in ("swallowed_reservation", "diverging_reservation"):
            fallible_alloc_rule(fdb, body, lambda rule, key, st, det, at, k=body["key"]: gote.setdefault(k, []).append(st))
    ok = gote.get("swallowed_reservation") == [REFUTED] and gote.get("diverging_reservation") == [PROVED]
    ctx.ob("C16.fixture", "fallible_reservation", ok, "C16.E on the fixture: swallowed failure -> %s (required: refuted), failure diverging through handle_alloc_error -> %s (required: proved)" % (
        gote.get("swallowed_reservation"), gote.get("diverging_reservation")), cfg=cfg)


    gotm = {}
    suppressed_owner_rule(fdb, lambda rule, key, st, det, at: gotm.setdefault(key.split("#")[0], []).append(st))
    bad_k = [k for k in gotm if "LeakyGuard" in k]
    good_k = [k for k in gotm if "Release" in k or "NestedGuard" in k]
    okm = bool(bad_k) and all(REFUTED in gotm[k] for k in bad_k) and bool(good_k) and all(gotm[k] == [PROVED] for k in good_k)
    ctx.ob("C16.fixture", "suppressed_owner", okm, "C16.M on the fixture: release after the element destructors without an unwind-path release -> %s (required: refuted); release placed in an inner guard that is dropped on the unwind path as well -> %s (required: proved)" % (
        [gotm[k] for k in bad_k], [gotm[k] for k in good_k]), cfg=cfg)


VEC_ADOPT = ("alloc::vec::Vec::<T>::from_raw_parts", "alloc::vec::Vec::<T, A>::from_raw_parts_in")


def check_handover(ctx, cfg):
    """C16.P: into_raw -> from_raw / alloc -> from_raw pairs keep pointer and layout."""
    rule = "C16.P"
    db = ctx.db(cfg)
    n = 0
    for b in db.bodies:
        if b["kind"] not in ("Fn", "AssocFn", "Closure"):
            continue
        def adopts(fn):
            return ("Box::<T" in fn and fn.endswith("::from_raw")) or fn in VEC_ADOPT
        if b["kind"] != "Closure" and ctx.is_helper(cfg, b):
            continue  # a private helper is judged expanded in its callers (where the guard that makes the hand-over valid lives)
        a = ctx.analysis(cfg, b["key"])
        if not any(adopts(c.fn) for c in a.calls):
            continue
        for i, f in enumerate([c for c in a.calls if adopts(c.fn)]):
            site = "%s#from_raw#%d" % (b["key"], i)
            p = f.args[0]
            dst = f.targs[0]
            if f.fn in VEC_ADOPT:
                # Vec::from_raw_parts(ptr, len, cap): the Vec will free `cap` elements' worth with T's alignment: an array type of that extent
                cap, ln = a.as_poly(f.args[2]), a.as_poly(f.args[1])
                if cap is None or ln is None or not prove((">=", cap - ln), a.poly_facts(f.facts)):
                    ctx.ob(rule, site, REFUTED, "Vec::from_raw_parts(.., len %s, capacity %s): len <= capacity not shown" % (vstr(f.args[1]), vstr(f.args[2])), at=f.at, cfg=cfg)
                    n += 1
                    continue
                p = ("P", p[1], p[2], cap) if p[0] == "P" else p
                dst = {"k": "slice", "t": dst}
            # Box::leak gives the block up exactly like Box::into_raw (as a reference instead of a raw pointer)
            srcs = [c for c in a.calls if ((c.fn.endswith("::into_raw") or c.fn.endswith("::leak")) and "Box::<T" in c.fn) and c.ret[0] == "P" and p[0] == "P" and c.ret[1] == p[1] and a.dominates(c.bb, f.bb)]
            if not srcs:
                raw = [c for c in a.calls if c.fn in ("alloc::alloc::alloc", "alloc::alloc::alloc_zeroed") and a.dominates(c.bb, f.bb) or (c.fn in ("alloc::alloc::alloc", "alloc::alloc::alloc_zeroed") and a.reaches(c.bb, f.bb))]
                if raw and raw[0].args[0][0] == "V" and raw[0].args[0][1] == "layout":
                    lsz = raw[0].args[0][2]
                    dsz = a.tenv.size(dst)
                    eq = prove(("==", lsz - dsz), a.poly_facts(f.facts))
                    ctx.ob(rule, site, eq and not p[2].t, "alloc(Layout of %s) -> from_raw::<%s>: sizes %r vs %r equal: %s" % (raw[0].args[0][3], tstr(dst), lsz, dsz, eq), at=f.at, cfg=cfg)
                else:
                    ctx.ob(rule, site, REFUTED, "Box::from_raw(%s) is not fed by a Box::into_raw / alloc of the same block in this function" % vstr(p), at=f.at, cfg=cfg)
                n += 1
                continue
            s = srcs[0]
            src = s.targs[0]
            te = a.tenv
            pf = a.poly_facts(f.facts)
            same_ptr = not p[2].t
            # sizes: slices carry their length in the pointer value
            def size_of(ty, pv):
                if ty.get("k") == "slice":
                    return (pv[3] * te.size(ty["t"])) if pv[3] is not None else None
                return te.size(ty)
            s_sz, d_sz = size_of(src, s.ret if src.get("k") != "slice" else s.args[0]), size_of(dst, p)
            eq = s_sz is not None and d_sz is not None and prove(("==", s_sz - d_sz), pf)
            # alignment: both pointees are arrays/slices of the same element type (up to MaybeUninit/ManuallyDrop)
            def elem(ty):
                from ..tys import strip_wrappers
                ty = strip_wrappers(ty)
                while ty.get("k") in ("slice", "array") or is_ga(ty):
                    ty = strip_wrappers(ty["t"] if ty.get("k") in ("slice", "array") else adt_args(ty)[0])
                return tstr(ty)
            al = elem(src) == elem(dst)
            # while the block is raw (between into_raw and from_raw) nothing owns it: a call that can run caller code there leaks it on unwind
            cl = Classifier(db)
            window = [c.fn for c in a.calls if c is not s and c is not f and cl.classify(c, b) == "foreign" and not getattr(c, "no_effects", False)
                      and (a.dominates(s.bb, c.bb) and c.bb != s.bb) and (a.reaches(c.bb, f.bb) or c.bb == f.bb)]
            ok = same_ptr and eq and al and not window
            ctx.ob(rule, site, ok, "into_raw::<%s> -> from_raw::<%s>: same pointer (offset 0): %s; sizes %r vs %r equal under %s: %s; same element type (alignment): %s; no call that can run foreign code while the block is raw: %s" % (
                tstr(src), tstr(dst), same_ptr, s_sz, d_sz, fstr(f.facts), eq, al, (not window) or sorted(set(window))), at=f.at, cfg=cfg)
            ctx.sample({"rule": rule, "site": site, "cfg": cfg, "src": tstr(src), "dst": tstr(dst)})
            n += 1
    return n


def check_release_taken_up(ctx, cfg):
    """C16.R: a block whose owner gives it up (Box::into_raw / Box::leak) is taken up again - Box::from_raw, Vec::from_raw_parts, dealloc - on EVERY
    path to a normal return, or the pointer is part of what is returned; otherwise nobody owns the block after the return and it stays
    allocated for ever. Judged per return path of the body with its private helpers expanded (C16.P is the converse: every adoption has a source)."""
    from ..segmap import path_calls
    from ..ownership import find_in
    rule = "C16.R"
    db = ctx.db(cfg)
    n = 0
    gives_up = lambda fn: (fn.endswith("::into_raw") or fn.endswith("::leak") or fn.endswith("::into_raw_with_allocator")) and "Box::<T" in fn
    takes_up = lambda fn: ("Box::<T" in fn and (fn.endswith("::from_raw") or fn.endswith("::from_raw_in"))) or fn in VEC_ADOPT or fn == "alloc::alloc::dealloc"
    for b in db.bodies:
        if b["kind"] not in ("Fn", "AssocFn") or ctx.is_helper(cfg, b):
            continue
        b2 = ctx.inlined(db, b)
        if not any(t["term"]["k"] == "call" and t["term"]["f"].get("k") == "fn" and gives_up(t["term"]["f"]["def"]) for t in b2["mir"]["blocks"]):
            continue
        at = ctx.analysis_inl(cfg, b["key"], split=True)
        bad, und, sites = [], [], set()
        for r in at.returns:
            calls = path_calls(at, r)
            if calls is None:
                und.append("return at bb%d: path not unique" % r["bb"])
                continue
            for i, s_ in enumerate(calls):
                if not gives_up(s_.fn) or s_.ret is None or s_.ret[0] != "P":
                    continue
                sites.add((s_.at, at.blocks[s_.bb].get("split_of", s_.bb)))
                base = s_.ret[1]
                later = calls[i + 1:]
                taken = any(takes_up(f.fn) and f.args and f.args[0][0] == "P" and f.args[0][1] == base for f in later)
                escapes = bool(find_in(r["val"], lambda t: isinstance(t, tuple) and len(t) == 4 and t[0] == "P" and t[1] == base))
                if not (taken or escapes):
                    bad.append("the block given up by %s at %s is neither taken up again nor returned on the path returning %s" % (s_.fn.split("::")[-1], s_.at, vstr(r["val"])[:80]))
        st = REFUTED if bad else (UNKNOWN if und else PROVED)
        ctx.ob(rule, b["key"], st, "; ".join(sorted(set(bad + und))) if (bad or und) else
               "%d site(s) where a Box gives its block up: on every return path after them the block is adopted again (from_raw / from_raw_parts / dealloc) or returned" % len(sites), at=b["at"], cfg=cfg, frozen=False)
        n += 1
    return n


def check(ctx):
    ctx.explanation = EXPLANATION
    ctx.trusted = ["Box / Vec allocate, free and report allocation failure correctly (Box::new_uninit calls handle_alloc_error; zero-size Boxes never touch the allocator)",
                   "C01: size/alignment of GenericArray<T, N>"]
    ctx.assumptions = ["what a real allocator does on failure needs execution and is outside the claim; the static content is the missing/present null branch"]
    cfgs = ["F1", "F1N"] if ctx.tier == "quick" else ["F1", "F1N", "F2", "F2N"]
    ctx.need(*cfgs)
    for cfg in cfgs:
        check_raw_sites(ctx, cfg)
        check_fixture(ctx, cfg)
        n = check_handover(ctx, cfg)
        ctx.floor("C16.P", "raw ownership hand-overs (%s)" % cfg, n, 1)
        nr = check_release_taken_up(ctx, cfg)
        ctx.floor("C16.R", "functions in which a Box gives its block up (%s)" % cfg, nr, 1)
        # closure panics in boxed map / zip: trait-default bodies over Vec / Box iterators: no raw state (C15.K / C08.R)
        from . import c04
        c04.check_raw_writes(ctx, cfg)
        # elements that own heap blocks of their own: a guard disarmed (finish()) before a call that can unwind or return early leaves them
        # undropped - their blocks stay allocated once all values are gone. The finish window of C04.F, run here as C16.W (S256, S228 once more)
        c04.check_finish_window(ctx, cfg, "C16.W")
