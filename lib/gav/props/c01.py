"""C01 - memory layout identical to [T; N] for every element type and length."""

import os
import tempfile

from ..core import PROVED, REFUTED, UNKNOWN, MISSING
from ..rules import check_const_transmute
from ..tys import tstr, adt_args, subst

EXPLANATION = (
    "Two static arguments. C01.S (universal in T and N): the premises of the layout induction over the binary digits of N are checked on the item facts "
    "of the type-checked crate - GenericArray is repr(transparent) over <N as ArrayLength>::ArrayType<T>; the base case is [T; 0]; the even/odd impls map to the "
    "two node structs over N's storage; both nodes are repr(C) (no packed/align), made of exactly two children of the same type, `parity` trailing elements of type T "
    "and 1-aligned zero-sized markers; these three are the only ArrayLength impls and the trait is sealed. Given these, repr(C)'s algorithm yields size N*size_of T, "
    "alignment align_of T and element i at byte i*size_of T for every digit pattern. C01.L (the property's lattice): rustc's own layout_of query is evaluated by the "
    "driver on GenericArray<E, N> for a lattice of element layouts x lengths (types built from binary digits inside the compiler, no code of the crate executed), "
    "checking size, alignment and recursively that every storage node's element-bearing fields sit at exactly the cumulative element offsets with no padding or overlap. "
    "C01.T: const_transmute's union read is dominated by its size-equality guard.")


def elem_lattice(tier):
    """Rust source of element type definitions and alias list."""
    src = []
    names = []

    def add(name, ty, pre=""):
        if pre:
            src.append(pre)
        src.append("pub type E_%s = %s;" % (name, ty))
        names.append(name)

    add("u8", "u8")
    add("u32", "u32")
    add("unit", "()")
    add("pad_u8_u16", "(u8, u16)")
    add("pad3", "(u8, u64, u8)")
    add("z64", "Z64", "#[repr(align(64))] pub struct Z64;")
    add("nested", "GenericArray<GenericArray<u16, UInt<UInt<UTerm, B1>, B1>>, UInt<UInt<UInt<UTerm, B1>, B0>, B1>>")
    add("packed", "Pk", "#[repr(C, packed)] pub struct Pk { a: u8, b: u32, c: u16 }")
    if tier == "thorough":
        for al in (1, 2, 4, 8, 16, 32, 64):
            for size in range(0, 65):
                if size % al:
                    continue
                if size == 0:
                    if al in (1, 64):
                        continue
                    add("z%d" % al, "Z%d" % al, "#[repr(align(%d))] pub struct Z%d;" % (al, al))
                else:
                    add("s%da%d" % (size, al), "S%dA%d" % (size, al), "#[repr(C, align(%d))] pub struct S%dA%d([u8; %d]);" % (al, size, al, size))
        add("u16", "u16")
        add("u64", "u64")
        add("u128", "u128")
        add("string", "String")
        add("str_ref", "&'static str")
        add("mu", "core::mem::MaybeUninit<(u8, u32)>")
        add("md", "core::mem::ManuallyDrop<String>")
        add("opt_box", "Option<Box<u8>>")
        add("packed2", "Pk2", "#[repr(C, packed(2))] pub struct Pk2 { a: u8, b: u64 }")
        add("fnptr", "fn(u8) -> u8")
        add("arr3", "[u8; 3]")
        add("nested_odd", "GenericArray<(u8, u32), UInt<UInt<UInt<UTerm, B1>, B1>, B1>>")
    return "\n".join(src), names


def length_lattice(tier):
    small = list(range(0, 1025))
    big = set()
    for k in range(0, 63):
        big.add(1 << k)
        if k > 0:
            big.add((1 << k) - 1)
    p = 1
    while p < (1 << 62):
        big.add(p)
        p *= 10
    big = sorted(x for x in big if x > 1024)
    if tier == "quick":
        return small, big
    return small, big


def witness_source(tier):
    elems, names = elem_lattice(tier)
    return (
        "#![allow(dead_code, non_camel_case_types)]\n"
        "extern crate generic_array;\n"
        "use generic_array::GenericArray;\n"
        "use generic_array::typenum::{UInt, UTerm, B0, B1};\n"
        "pub type SEED = GenericArray<u8, UInt<UInt<UTerm, B1>, B0>>;\n" + elems + "\n"), names


def storage_nodes(db):
    """{bit: (ArrayType<T> as the UInt<N, bit> impl instantiates it, name of N, the impl)} for the two recursive ArrayLength impls."""
    out = {}
    for i in db.impls_of("ArrayLength"):
        s = i["self"]
        at = [x for x in i["items"] if x["name"] == "ArrayType"]
        if not at or not (s.get("k") == "adt" and s["def"] == "typenum::UInt"):
            continue
        a = adt_args(s)
        bit = tstr(a[1])
        if at[0]["ty"].get("k") == "adt" and a[0].get("k") == "param" and bit in ("typenum::B0", "typenum::B1"):
            out[bit] = (at[0]["ty"], a[0]["n"], i)
    return out


def check_structure(ctx, cfg):
    rule = "C01.S"
    db = ctx.db(cfg)
    ga = db.adts.get("GenericArray")
    if ga is None:
        ctx.ob(rule, "GenericArray", MISSING, "struct GenericArray not found", cfg=cfg)
        return
    real = [f for f in ga["fields"] if not f["s"].startswith("core::marker::PhantomData<")]
    ok = (ga["repr"]["transparent"] or ga["repr"]["c"]) and not ga["repr"]["packed"] and ga["repr"]["align"] is None and len(real) == 1 \
        and real[0]["ty"].get("k") == "alias" and real[0]["ty"]["def"].endswith("ArrayLength::ArrayType")
    if ok:
        args = [tstr(x) for x in real[0]["ty"]["args"]]
        gens = [g["n"] for g in ga["generics"]]
        ok = args == [gens[1], gens[0]]
    ctx.ob(rule, "GenericArray#repr", ok, "repr=%s fields=%s; required: repr(transparent) (or single-field repr(C)) over <N as ArrayLength>::ArrayType<T>" % (
        "transparent" if ga["repr"]["transparent"] else ("C" if ga["repr"]["c"] else "Rust (unspecified layout)"), [(f["name"], f["s"]) for f in ga["fields"]]), at=ga["at"], cfg=cfg)

    impls = db.impls_of("ArrayLength")
    selfs = sorted(i["self_s"] for i in impls)
    nodes = {}
    ok3 = len(impls) == 3
    det = []
    for i in impls:
        s = i["self"]
        at = [x for x in i["items"] if x["name"] == "ArrayType"]
        if not at:
            ok3 = False
            continue
        aty = at[0]["ty"]
        if tstr(s) == "typenum::UTerm":
            good = aty.get("k") == "array" and aty["n"].get("k") == "int" and aty["n"]["v"] == 0 and aty["t"].get("k") == "param"
            ctx.ob(rule, "ArrayLength for UTerm", good, "ArrayType<T> = %s; required [T; 0] (size 0, alignment of T)" % at[0]["s"], at=i["at"], cfg=cfg)
        elif s.get("k") == "adt" and s["def"] == "typenum::UInt":
            a = adt_args(s)
            bit = tstr(a[1])
            inner = a[0]
            impl_gens = {g["n"] for g in i["generics"]}
            good = aty.get("k") == "adt" and inner.get("k") == "param" and bit in ("typenum::B0", "typenum::B1")
            if good:
                nodes[bit] = (aty, inner["n"], i)
            ctx.ob(rule, "ArrayLength for UInt<N, %s>" % bit.split("::")[-1], good,
                   "ArrayType<T> = %s; required a storage node struct instantiated over T and <N as ArrayLength>::ArrayType<T>" % at[0]["s"], at=i["at"], cfg=cfg)
        else:
            ok3 = False
            det.append("unexpected impl for " + tstr(s))
    ctx.ob(rule, "ArrayLength#impls", ok3 and set(nodes) == {"typenum::B0", "typenum::B1"},
           "ArrayLength impls: %s (required exactly UTerm, UInt<N,B0>, UInt<N,B1>) %s" % (selfs, "; ".join(det)), cfg=cfg)
    for bit, parity in (("typenum::B0", 0), ("typenum::B1", 1)):
        if bit not in nodes:
            ctx.ob(rule, "node#%d" % parity, MISSING, "storage node struct for parity %d not found" % parity, cfg=cfg)
            continue
        aty, nname, imp = nodes[bit]
        name = aty["def"]
        adt = db.adts.get(name)
        if adt is None:
            ctx.ob(rule, "node#%d" % parity, MISSING, "storage node struct %s for parity %d not found" % (name, parity), cfg=cfg)
            continue
        # the node as the impl instantiates it: the struct's fields with its parameters replaced by the arguments of `ArrayType<T> = Node<..>`; a field
        # is a child when it is <N as ArrayLength>::ArrayType<T>, an element when it is the associated type's own parameter T
        impl_gens = {g["n"] for g in imp["generics"]}
        sub = {g["n"]: x for g, x in zip([g for g in adt["generics"] if g["kind"] in ("type", "const")], adt_args(aty))}
        kinds = {"child": 0, "elem": 0, "marker": 0, "other": []}
        tnames = set()
        for f in adt["fields"]:
            ft = subst(f["ty"], sub)
            if ft.get("k") == "alias" and ft["def"].endswith("ArrayLength::ArrayType") and len(ft["args"]) == 2 and ft["args"][0].get("k") == "param" \
                    and ft["args"][0]["n"] == nname and ft["args"][1].get("k") == "param" and ft["args"][1]["n"] not in impl_gens:
                kinds["child"] += 1
                tnames.add(ft["args"][1]["n"])
            elif ft.get("k") == "param" and ft["n"] not in impl_gens:
                kinds["elem"] += 1
                tnames.add(ft["n"])
            elif ft.get("k") == "adt" and ft["def"] == "core::marker::PhantomData":
                kinds["marker"] += 1
            else:
                kinds["other"].append(tstr(ft))
        r = adt["repr"]
        ok = r["c"] and not r["packed"] and r["align"] is None and not r["transparent"] and not r["simd"] and adt["kind"] == "Struct" \
            and kinds["child"] == 2 and kinds["elem"] == parity and not kinds["other"] and len(tnames) == 1
        ctx.ob(rule, "node#%d#%s" % (parity, name), ok,
               "%s: repr(C)=%s packed=%s align=%s; fields as instantiated: %d children (<N as ArrayLength>::ArrayType<T>), %d trailing elements (T), %d markers, other=%s; required repr(C), 2 children, %d element(s), only PhantomData besides" % (
                   tstr(aty), r["c"], r["packed"], r["align"], kinds["child"], kinds["elem"], kinds["marker"], kinds["other"], parity), at=adt["at"], cfg=cfg)
    # sealedness (shared with C12.S): ArrayType: Sealed, Sealed not nameable outside, ArrayLength: Unsigned
    tr = db.traits.get("ArrayLength")
    if tr is None:
        ctx.ob(rule, "ArrayLength#sealed", MISSING, "trait not found", cfg=cfg)
    else:
        sup = any("typenum::Unsigned" in s for s in tr["supers"])
        at = [x for x in tr["items"] if x["name"] == "ArrayType"]
        sealed_bound = bool(at) and any(b.endswith(": internal::Sealed") or b.endswith("::Sealed") for b in at[0].get("bounds") or [])
        st = [t for p, t in db.traits.items() if p.split("::")[-1] == "Sealed"]
        hidden = bool(st) and not st[0]["vis"]["exported"]
        ctx.ob(rule, "ArrayLength#sealed", sup and sealed_bound and hidden and tr["unsafe"],
               "Unsigned supertrait: %s; ArrayType<T>: Sealed: %s; Sealed not nameable from outside: %s; unsafe trait: %s" % (sup, sealed_bound, hidden, tr["unsafe"]), at=tr["at"], cfg=cfg)


def run_lattice(ctx, build, tier, label):
    rule = "C01.L"
    src, names = witness_source(tier)
    small, big = length_lattice(tier)
    d = tempfile.mkdtemp(prefix="c01-", dir=build.dir)
    sp = os.path.join(d, "layout_witness.rs")
    with open(sp, "w") as f:
        f.write(src)
    rq = os.path.join(d, "req.txt")
    with open(rq, "w") as f:
        f.write("lens " + " ".join(str(x) for x in small + big) + "\nsamples 8\n")
    out = os.path.join(d, "facts.json")
    rc, diags, facts, stderr = build.compile_witness(sp, out_facts=out, crate_name="layout_witness", layout_req=rq)
    if rc != 0 or facts is None or facts.get("layout") is None:
        msgs = [x.get("message", "") for x in diags if x.get("level") == "error"]
        ctx.ob(rule, "lattice#" + label, MISSING, "layout witness crate did not compile / no layout facts: %s %s" % (msgs[:3], stderr[-500:]), cfg=build.cfg)
        return
    lay = facts["layout"]
    for e in facts.get("errors", []):
        ctx.ob(rule, "lattice#%s#error" % label, REFUTED, e, cfg=build.cfg)
    fails = lay["failures"]
    for fl in fails[:25]:
        ctx.ob(rule, "probe#%s#%s#N=%d" % (label, fl["elem"], fl["n"]), REFUTED, fl["reason"], cfg=build.cfg, frozen=False)
    expected_elems = len(names)
    ctx.ob(rule, "lattice#" + label, not fails and lay["ok"] + lay["uninhabitable"] == lay["probes"] and len(lay["elems"]) == expected_elems,
           "layout_of probes: %d, consistent with [T; N]: %d, types too large to exist (>= 2^61 bytes): %d, failures: %d; storage nodes verified: %d; element types: %d; lengths per sized element: %d" % (
               lay["probes"], lay["ok"], lay["uninhabitable"], len(fails), lay["nodes_checked"], len(lay["elems"]), len(small) + len(big)), cfg=build.cfg)
    ctx.floor(rule, "layout probes (%s)" % label, lay["ok"], 5000 if tier == "quick" else 100000)
    for s in lay["samples"]:
        ctx.sample({"rule": rule, "probe": s})
    ctx.extra.setdefault("layout", {})[label] = {k: lay[k] for k in ("probes", "ok", "uninhabitable", "nodes_checked")}
    ctx.extra["layout"][label]["elements"] = [{"name": e["name"], "size": e["size"], "align": e["align"]} for e in lay["elems"]][:200]


def check(ctx):
    ctx.explanation = EXPLANATION
    ctx.trusted = ["rustc's layout computation (layout_of) and the documented repr(C)/repr(transparent) algorithms", "typenum: UInt<U, B>::USIZE = 2*U::USIZE + B"]
    ctx.assumptions = ["element types outside the probed lattice are covered by the structural rule C01.S only"]
    cfgs = ["F0", "F1", "F1N"]
    ctx.need(*cfgs)
    for cfg in cfgs:
        check_structure(ctx, cfg)
        check_const_transmute(ctx, cfg)
        # the consequence the statement draws ("viewing the array as a slice or native array never touches .. memory outside the array"): the
        # slice views rest on the layout, and their extents are the shared rules C02.V (views of one array: exactly N elements from its address)
        # and C10.F (one or several arrays viewed as a flat slice: exactly len * N elements)
        from ..rules import check_views, check_derived_views
        from . import c10
        check_views(ctx, cfg)
        # .. and every other reference the crate manufactures into an array it was handed stays inside it (sweep, C01.V)
        check_derived_views(ctx, cfg)
        for f in ("slice_from_chunks", "slice_from_chunks_mut"):
            c10.check_flatten(ctx, cfg, c10.K + f)
        # and the converse reinterpretation that rests on the same layout: a slice viewed as arrays plus a remainder stays inside the slice (C10.C)
        for f in ("chunks_from_slice", "chunks_from_slice_mut"):
            c10.check_chunks(ctx, cfg, c10.K + f)
        # "viewing the array as a .. native array": slices of arrays and slices of native arrays of the same length are one another's views -
        # same address, same element count, for every N including 0 (C10.X)
        for f in ("from_chunks", "from_chunks_mut", "into_chunks", "into_chunks_mut"):
            c10.check_transmute(ctx, cfg, c10.K + f)
        if not cfg.startswith("F0"):
            # the one operation that writes through raw views of the storage: zeroize touches the N elements and nothing beyond them (C19.Z)
            from . import c19
            c19.check_zeroize(ctx, cfg)
            # heap blocks re-typed as arrays (Box<[T]> / Vec<T> -> Box<GenericArray<T, N>>): the slice view and the destructor of the result cover
            # N elements, so the hand-over must be reached under len == N - an element count, which a comparison of byte layouts does not give for
            # zero-sized elements (C15.G), and with equal layouts (C16.P)
            from . import c15, c16
            c15.check_guards(ctx, cfg)
            c16.check_handover(ctx, cfg)
    run_lattice(ctx, ctx.builds["F0"], ctx.tier, "F0")
    if ctx.tier == "thorough":
        from .. import run as R
        b = R.Build("F0", extra_rustflags="-Zrandomize-layout")
        b.run()
        ctx.builds["F0-randomize-layout"] = b
        from ..facts import Facts
        ctx.dbs["F0-randomize-layout"] = Facts(b.facts)
        run_lattice(ctx, b, "quick", "F0-randomize-layout")
