"""C10 - chunk regrouping partitions a slice exactly, without copying."""

from ..core import PROVED, REFUTED, UNKNOWN, MISSING
from ..poly import Poly, prove
from ..rules import tiling, vstr, fstr, lifetime_linkage
from ..tys import tstr, pointee

EXPLANATION = (
    "Static analysis of the polymorphic MIR (slice length L and array length N symbolic; configs F0+F1). "
    "C10.C: in chunks_from_slice(_mut) the two from_raw_parts pieces - (base+0, floor(L/N) arrays of N*size(T) bytes) and "
    "(base + floor(L/N)*N elements, L - floor(L/N)*N elements) - are proved, with the axioms of floor division, to tile the source's L*size(T) bytes exactly "
    "(adjacent, no overlap, nothing beyond the end), the remainder is proved < N, both pieces are reached only under N != 0, and the N = 0 branch returns two empty "
    "slices only under L = 0 and panics under L != 0. C10.F: slice_from_chunks(_mut) covers exactly len*N elements at offset 0. "
    "C10.X: from_chunks/into_chunks(_mut) transmute between slices whose element sizes are equal under Const<U>: IntoArrayLength<ArrayLength = N>, returning the "
    "source fat pointer unchanged. C10.M: the ten signatures tie the returned regions and mutability to the source parameter. "
    "Not decided here: acceptance by the compiler's const evaluator (that is an execution; see C18).")

K = "GenericArray<$0,$1>::"


def raw_parts(a):
    return [c for c in a.calls if c.fn in ("core::slice::from_raw_parts", "core::slice::from_raw_parts_mut")]


def check_chunks(ctx, cfg, key):
    rule = "C10.C"
    b = ctx.body(cfg, key, rule)
    if b is None:
        return 0
    a = ctx.analysis(cfg, key)
    te = a.tenv
    nlen = te.length({"k": "param", "n": b["generics"][1]["n"]})
    L = Poly.atom(("len", ("arg", 1)))
    total = a.base_extent(("arg", 1))
    rp = raw_parts(a)
    if len(rp) != 2:
        ctx.ob(rule, key, REFUTED if rp else MISSING, "expected two from_raw_parts pieces, found %d" % len(rp), at=b["at"], cfg=cfg)
        return 0
    pieces = []
    facts = frozenset()
    for c in rp:
        p = c.args[0]
        cnt = a.as_poly(c.args[1])
        if p[0] != "P" or p[1] != ("arg", 1) or cnt is None:
            ctx.ob(rule, key, REFUTED, "piece not derived from the source slice: %s" % vstr(p), at=b["at"], cfg=cfg)
            return 0
        pieces.append((p[2], cnt * te.size(c.targs[0]), c))
        facts = facts | c.facts
    st, det = tiling(a, [(o, e) for o, e, _ in pieces], total, facts)
    ctx.ob(rule, key + "#tiling", st, det + " under " + fstr(rp[1].facts), at=b["at"], cfg=cfg)
    ctx.sample({"rule": rule, "fn": key, "cfg": cfg, "detail": det})
    # each piece reached only under N != 0
    for i, c in enumerate(rp):
        ctx.ob(rule, "%s#nonzero#%d" % (key, i), a.prove(c.facts, "Ne", nlen, Poly.const(0)), "piece constructed under %s; required N != 0" % fstr(c.facts), at=b["at"], cfg=cfg)
    # element kinds: one piece of arrays, one of elements; the remainder is < N
    arr = [p for p in pieces if tstr(p[2].targs[0]).startswith("GenericArray<")]
    rem = [p for p in pieces if not tstr(p[2].targs[0]).startswith("GenericArray<")]
    ok = len(arr) == 1 and len(rem) == 1
    if ok:
        rem_cnt = a.as_poly(rem[0][2].args[1])
        ok_rem = prove((">=", nlen - rem_cnt - 1), a.poly_facts(facts))
        ok_first = prove(("==", arr[0][0]), a.poly_facts(facts))
        ctx.ob(rule, key + "#remainder", ok_rem and ok_first, "remainder count %r < N provable: %s; the array piece starts at the slice's address: %s" % (rem_cnt, ok_rem, ok_first), at=b["at"], cfg=cfg)
    else:
        ctx.ob(rule, key + "#remainder", REFUTED, "expected one piece of GenericArray<T, N> and one of T", at=b["at"], cfg=cfg)
    # N == 0 branch
    panics = [c for c in a.calls if c.fn.startswith("core::panicking::")]
    okp = bool(panics) and all(a.prove(c.facts, "Eq", nlen, Poly.const(0)) and a.prove(c.facts, "Ne", L, Poly.const(0)) for c in panics)
    ctx.ob(rule, key + "#zero-panic", okp, "panic exits: " + "; ".join(fstr(c.facts) for c in panics) + " (required: N == 0 and len != 0)", at=b["at"], cfg=cfg)
    rets = [s for s in a.assigns if s["cell"] == (("local", 0), ()) and s["val"][0] == "A" and s["val"][1] == "tuple"]
    n_zero = 0
    good = True
    for s in rets:
        if a.prove(s["facts"], "Eq", nlen, Poly.const(0)):
            n_zero += 1
            vals = s["val"][2]
            empties = all(v[0] == "P" and v[3] is not None and v[3] == Poly.const(0) for v in vals)
            lz = a.prove(s["facts"], "Eq", L, Poly.const(0))
            good = good and empties and lz
        elif a.prove(s["facts"], "Ne", nlen, Poly.const(0)):
            vals = s["val"][2]
            good = good and len(vals) == 2 and vals[0] == arr[0][2].ret and vals[1] == rem[0][2].ret if ok else False
        else:
            good = False
    ctx.ob(rule, key + "#returns", good and n_zero == 1 and len(rets) == 2,
           "return sites: %d (one under N == 0 & len == 0 giving two empty slices, one under N != 0 giving (arrays, remainder) in that order)" % len(rets), at=b["at"], cfg=cfg)
    return 1


def check_flatten(ctx, cfg, key):
    rule = "C10.F"
    b = ctx.body(cfg, key, rule)
    if b is None:
        return 0
    a = ctx.analysis(cfg, key)
    rp = raw_parts(a)
    if len(rp) != 1:
        ctx.ob(rule, key, REFUTED if rp else MISSING, "expected one from_raw_parts, found %d" % len(rp), at=b["at"], cfg=cfg)
        return 0
    c = rp[0]
    p = c.args[0]
    cnt = a.as_poly(c.args[1])
    total = a.base_extent(("arg", 1))
    ok = p[0] == "P" and p[1] == ("arg", 1) and cnt is not None
    st, det = (REFUTED, "not derived from the source") if not ok else tiling(a, [(p[2], cnt * a.tenv.size(c.targs[0]))], total, c.facts)
    okret = all(r["val"] == c.ret for r in a.returns)
    ctx.ob(rule, key, st if okret else REFUTED, det + "; result returned unchanged: %s" % okret, at=b["at"], cfg=cfg)
    return 1


def check_transmute(ctx, cfg, key):
    rule = "C10.X"
    b = ctx.body(cfg, key, rule)
    if b is None:
        return 0
    a = ctx.analysis(cfg, key)
    tr = [c for c in a.casts if c["ck"] == "Transmute"]
    if len(tr) != 1:
        ctx.ob(rule, key, REFUTED if tr else UNKNOWN, "expected one slice-reference transmute, found %d" % len(tr), at=b["at"], cfg=cfg)
        return 0
    c = tr[0]
    pf, pt = pointee(c["from"]), pointee(c["to"])
    ok = pf is not None and pt is not None and pf.get("k") == "slice" and pt.get("k") == "slice"
    det = "transmute %s -> %s" % (tstr(c["from"]), tstr(c["to"]))
    if ok:
        sf, st_ = a.tenv.size(pf["t"]), a.tenv.size(pt["t"])
        ok = prove(("==", sf - st_), a.poly_facts(c["facts"]))
        det += ": element sizes %r vs %r under the where-clauses" % (sf, st_)
        v = c["val"]
        ok = ok and v[0] == "P" and v[1] == ("arg", 1) and not v[2].t and v[3] == Poly.atom(("len", ("arg", 1)))
        ok = ok and all(r["val"][0] == "P" and r["val"][1] == ("arg", 1) and not r["val"][2].t and r["val"][3] == v[3] for r in a.returns)
        ok = ok and c["from"]["mut"] == c["to"]["mut"]
    ctx.ob(rule, key, ok, det + "; same address and element count returned", at=b["at"], cfg=cfg)
    return 1


SIGS = ["chunks_from_slice", "chunks_from_slice_mut", "slice_from_chunks", "slice_from_chunks_mut",
        "from_chunks", "from_chunks_mut", "into_chunks", "into_chunks_mut"]


def check(ctx):
    ctx.explanation = EXPLANATION
    ctx.trusted = ["rustc MIR construction", "slice::from_raw_parts semantics", "C01: size_of GenericArray<T, N> = N * size_of T",
                   "axioms of floor division: q*N <= L < q*N + N for N > 0"]
    ctx.assumptions = ["len * N does not overflow usize (only possible for zero-sized T with astronomically long slices)",
                       "const-evaluator acceptance is outside this claim (execution)"]
    cfgs = ["F0", "F1"] if ctx.tier == "quick" else ["F0", "F1", "F2"]
    ctx.need(*cfgs)
    for cfg in cfgs:
        n = 0
        n += check_chunks(ctx, cfg, K + "chunks_from_slice")
        n += check_chunks(ctx, cfg, K + "chunks_from_slice_mut")
        n += check_flatten(ctx, cfg, K + "slice_from_chunks")
        n += check_flatten(ctx, cfg, K + "slice_from_chunks_mut")
        for f in ("from_chunks", "from_chunks_mut", "into_chunks", "into_chunks_mut"):
            n += check_transmute(ctx, cfg, K + f)
        ctx.floor("C10", "chunk functions analysed (%s)" % cfg, n, 8)
        db = ctx.db(cfg)
        for f in SIGS:
            b = ctx.body(cfg, K + f, "C10.M")
            if b is None:
                continue
            st, det = lifetime_linkage(db, b)
            ctx.ob("C10.M", K + f, st if st is not None else UNKNOWN, det, at=b["at"], cfg=cfg)
