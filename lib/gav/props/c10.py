"""C10 - chunk regrouping partitions a slice exactly, without copying."""

from ..core import PROVED, REFUTED, UNKNOWN, MISSING
from ..poly import Poly, prove
from ..rules import tiling, vstr, fstr, lifetime_linkage
from ..tys import tstr, pointee

EXPLANATION = (
    "Static analysis of the polymorphic MIR (slice length L and array length N symbolic; configs F0+F1). "
    "Each rule is a postcondition on every return path of the expanded, tree-shaped body, whatever idiom builds the slices (from_raw_parts, split_at, transmute, casts). "
    "C10.C: in chunks_from_slice(_mut), under N != 0 the two returned views - arrays first, from the source's address - are proved, with the axioms of floor division, to tile the source's "
    "L*size(T) bytes exactly (adjacent, no overlap, nothing beyond the end) with a remainder of fewer than N elements; under N == 0 both are empty and L = 0; panics only under N == 0 and L != 0. "
    "C10.F: slice_from_chunks(_mut) covers exactly len*N elements at offset 0. "
    "C10.X: from_chunks/into_chunks(_mut) return the source's address and element count with element sizes equal under Const<U>: IntoArrayLength<ArrayLength = N> and the same mutability. C10.M: the ten signatures tie the returned regions and mutability to the source parameter. "
    "Not decided here: acceptance by the compiler's const evaluator (that is an execution; see C18).")

K = "GenericArray<$0,$1>::"


def raw_parts(a):
    return [c for c in a.calls if c.fn in ("core::slice::from_raw_parts", "core::slice::from_raw_parts_mut")]


def slice_elem(t):
    pt = pointee(t) if t is not None else None
    return pt["t"] if pt is not None and pt.get("k") == "slice" else None


def piece_of(a, v, elem):
    """(byte offset, byte extent, element count) of a slice pointer into the source parameter, or None."""
    if v[0] != "P" or v[1] != ("arg", 1) or v[3] is None or elem is None:
        return None
    return v[2], v[3] * a.tenv.size(elem), v[3]


def check_chunks(ctx, cfg, key):
    """chunks_from_slice(_mut), judged per return path (helpers expanded, tree-shaped): whatever builds the two slices, under N != 0 they are
    views into the source that tile it exactly - arrays first, from its address - with fewer than N elements left over; under N == 0 both are
    empty and the source is empty; panics only under N == 0 with a non-empty source."""
    rule = "C10.C"
    b = ctx.body(cfg, key, rule)
    if b is None:
        return 0
    a = ctx.analysis_inl(cfg, key, split=True, tag="c10")
    te = a.tenv
    nlen = te.length({"k": "param", "n": b["generics"][1]["n"]})
    L = Poly.atom(("len", ("arg", 1)))
    total = a.base_extent(("arg", 1))
    rt = a.local_ty(0)
    elems = [slice_elem(t) for t in rt["ts"]] if rt.get("k") == "tuple" and len(rt["ts"]) == 2 else [None, None]
    kinds_ok = elems[0] is not None and elems[1] is not None and tstr(elems[0]).startswith("GenericArray<") and not tstr(elems[1]).startswith("GenericArray<")
    bad, n_nonzero, n_zero, dets = [], 0, 0, []
    for r in a.returns:
        v = r["val"]
        fs = r["facts"]
        if not (v[0] == "A" and v[1] == "tuple" and len(v[2]) == 2):
            bad.append("a return value is not a pair of slices: %s" % vstr(v))
            continue
        if a.prove(fs, "Eq", nlen, Poly.const(0)):
            n_zero += 1
            empties = all(x[0] == "P" and x[3] is not None and a.prove(fs, "Eq", x[3], Poly.const(0)) for x in v[2])
            lz = a.prove(fs, "Eq", L, Poly.const(0))
            if not (empties and lz):
                bad.append("under N == 0 the result must be two empty slices and the source empty: %s / %s" % (empties, lz))
            continue
        if not a.prove(fs, "Ne", nlen, Poly.const(0)):
            bad.append("a return path is taken without N == 0 or N != 0 being decided: %s" % fstr(fs))
            continue
        n_nonzero += 1
        ps = [piece_of(a, x, e) for x, e in zip(v[2], elems)]
        if None in ps:
            bad.append("a piece is not a view into the source slice: %s" % ", ".join(vstr(x) for x in v[2]))
            continue
        st, det = tiling(a, [(o, e) for o, e, _ in ps], total, fs)
        dets.append(det)
        first = prove(("==", ps[0][0]), a.poly_facts(fs))
        rem = prove((">=", nlen - ps[1][2] - 1), a.poly_facts(fs))
        # element counts (bytes say nothing for zero-sized elements): chunks * N + remainder == len
        cnt = prove(("==", ps[0][2] * nlen + ps[1][2] - L), a.poly_facts(fs))
        if st != PROVED or not first or not rem or not cnt:
            bad.append("%s; the array piece starts at the slice's address: %s; remainder count %r < N: %s; chunks * N + remainder == len in elements: %s" % (det, first, ps[1][2], rem, cnt))
    panics = [c for c in a.calls if c.fn.startswith("core::panicking::")]
    okp = bool(panics) and all(a.prove(c.facts, "Eq", nlen, Poly.const(0)) and a.prove(c.facts, "Ne", L, Poly.const(0)) for c in panics)
    ok = kinds_ok and not bad and n_nonzero >= 1 and n_zero >= 1
    ctx.ob(rule, key + "#tiling", ok, ("; ".join(sorted(set(bad))) if bad else "result types (&[GenericArray<T,N>], &[T]): %s; %d return path(s) under N != 0, each tiling the source exactly (%s), %d under N == 0 giving two empty slices of an empty source" % (
        kinds_ok, n_nonzero, "; ".join(sorted(set(dets)))[:300], n_zero)), at=b["at"], cfg=cfg)
    ctx.ob(rule, key + "#zero-panic", okp, "panic exits: " + "; ".join(sorted({fstr(c.facts) for c in panics})) + " (required: N == 0 and len != 0)", at=b["at"], cfg=cfg)
    ctx.sample({"rule": rule, "fn": key, "cfg": cfg, "detail": dets[:2]})
    return 1


def check_flatten(ctx, cfg, key):
    rule = "C10.F"
    b = ctx.body(cfg, key, rule)
    if b is None:
        return 0
    a = ctx.analysis_inl(cfg, key, split=True, tag="c10")
    total = a.base_extent(("arg", 1))
    elem = slice_elem(a.local_ty(0))
    bad = []
    for r in a.returns:
        p = piece_of(a, r["val"], elem)
        if p is None:
            bad.append("result is not a view into the source: %s" % vstr(r["val"]))
            continue
        st, det = tiling(a, [(p[0], p[1])], total, r["facts"])
        if st != PROVED:
            bad.append(det)
        # element count (bytes say nothing for zero-sized elements): exactly len * N elements
        nlen = a.tenv.length({"k": "param", "n": b["generics"][1]["n"]})
        if not prove(("==", p[2] - Poly.atom(("len", ("arg", 1))) * nlen), a.poly_facts(r["facts"])):
            bad.append("the flat slice has %r elements under %s, not len * N" % (p[2], fstr(r["facts"])))
    ctx.ob(rule, key, bool(a.returns) and not bad, "; ".join(bad) if bad else "the flat slice starts at the source's address, covers exactly its %r bytes and has exactly len * N elements" % (total,), at=b["at"], cfg=cfg)
    return 1


def check_transmute(ctx, cfg, key):
    """from_chunks / into_chunks (_mut): &[[T; U]] <-> &[GenericArray<T, N>] - same address, same element count, equal element sizes, same mutability."""
    rule = "C10.X"
    b = ctx.body(cfg, key, rule)
    if b is None:
        return 0
    a = ctx.analysis_inl(cfg, key, split=True, tag="c10")
    ef, et = slice_elem(a.local_ty(1)), slice_elem(a.local_ty(0))
    ok = ef is not None and et is not None
    det = "%s -> %s" % (tstr(a.local_ty(1)), tstr(a.local_ty(0)))
    if ok:
        sf, st_ = a.tenv.size(ef), a.tenv.size(et)
        ok = prove(("==", sf - st_), a.poly_facts(frozenset()))
        det += ": element sizes %r vs %r under the where-clauses: %s" % (sf, st_, ok)
        ln = Poly.atom(("len", ("arg", 1)))
        same = bool(a.returns) and all(r["val"][0] == "P" and r["val"][1] == ("arg", 1) and not r["val"][2].t and r["val"][3] is not None and a.prove(r["facts"], "Eq", r["val"][3], ln) for r in a.returns)
        mut = a.local_ty(1).get("mut") == a.local_ty(0).get("mut")
        eff = [c.fn for c in a.calls if not a.is_pure(c) and not getattr(c, "no_effects", False) and not c.fn.startswith("core::panicking::")]
        ok = ok and same and mut and not eff
        det += "; same address and element count returned: %s; same mutability: %s; no effectful call: %s" % (same, mut, not eff)
    ctx.ob(rule, key, ok, det, at=b["at"], cfg=cfg)
    return 1


SIGS = ["chunks_from_slice", "chunks_from_slice_mut", "slice_from_chunks", "slice_from_chunks_mut",
        "from_chunks", "from_chunks_mut", "into_chunks", "into_chunks_mut"]


def check(ctx):
    ctx.explanation = EXPLANATION
    ctx.trusted = ["rustc MIR construction", "slice::from_raw_parts semantics", "C01: size_of GenericArray<T, N> = N * size_of T",
                   "axioms of floor division: q*N <= L < q*N + N for N > 0"]
    ctx.assumptions = ["len * N does not overflow usize (only possible for zero-sized T with astronomically long slices)",
                       "const-evaluator acceptance is outside this claim (execution)"]
    cfgs = ["F0", "F1", "F1N"] if ctx.tier == "quick" else ["F0", "F1", "F1N", "F2", "F0N", "F2N"]
    ctx.need(*cfgs)
    for cfg in cfgs:
        n = 0
        n += check_chunks(ctx, cfg, K + "chunks_from_slice")
        n += check_chunks(ctx, cfg, K + "chunks_from_slice_mut")
        n += check_flatten(ctx, cfg, K + "slice_from_chunks")
        n += check_flatten(ctx, cfg, K + "slice_from_chunks_mut")
        for f in ("from_chunks", "from_chunks_mut", "into_chunks", "into_chunks_mut"):
            n += check_transmute(ctx, cfg, K + f)
        ctx.floor("C10", "chunk functions analysed (%s)" % cfg, n, 8)
        db = ctx.db(cfg)
        for f in SIGS:
            b = ctx.body(cfg, K + f, "C10.M")
            if b is None:
                continue
            st, det = lifetime_linkage(db, b)
            ctx.ob("C10.M", K + f, st if st is not None else UNKNOWN, det, at=b["at"], cfg=cfg)
