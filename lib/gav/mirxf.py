"""Semantics-preserving transformations of exported MIR, applied before abstract interpretation.

inline_calls   replaces calls to crate-local helper functions by the helper's own blocks (what rustc's MIR inliner does),
               so that a method split into private helpers is analysed as the straight-line code it is.  Only calls whose
               generic arguments are the callee's own parameters (same names, same positions) are inlined: types inside the
               helper's MIR then mean the same thing in the caller.
split_returns  gives every way of reaching `return` its own copy of the (branch-free) tail of the function, so that
               `Analysis.returns` has one entry per return path with that path's value, memory and facts instead of a phi.
Neither changes behaviour; both only change block / local numbering (original blocks and locals keep their numbers)."""

import copy


def _is_place(d):
    return isinstance(d, dict) and set(d.keys()) == {"l", "p"}


def _renumber(x, off_l):
    """Shift every local mentioned in a (deep-copied) MIR fragment by off_l."""
    if isinstance(x, dict):
        if x.get("k") in ("slive", "sdead") and "sl" in x:
            x["sl"] += off_l
            return
        if _is_place(x):
            x["l"] += off_l
            for e in x["p"]:
                if isinstance(e, dict) and "idx" in e and len(e) == 1:
                    e["idx"] += off_l
            return
        for k, v in x.items():
            if k == "ty":
                continue  # types mention no locals
            _renumber(v, off_l)
    elif isinstance(x, list):
        for v in x:
            _renumber(v, off_l)


def _retarget(term, f):
    k = term["k"]
    if k == "goto":
        term["target"] = f(term["target"])
    elif k == "switch":
        term["targets"] = [[v, f(b)] for v, b in term["targets"]]
        term["otherwise"] = f(term["otherwise"])
    elif k in ("drop", "assert", "call"):
        if term.get("target") is not None:
            term["target"] = f(term["target"])
        if isinstance(term.get("unwind"), dict):
            term["unwind"] = {"cleanup": f(term["unwind"]["cleanup"])}


def normal_succs(term):
    k = term["k"]
    if k == "goto":
        return [term["target"]]
    if k == "switch":
        return [b for _, b in term["targets"]] + [term["otherwise"]]
    if k in ("drop", "assert", "call"):
        return [term["target"]] if term.get("target") is not None else []
    return []


def all_succs(term):
    out = normal_succs(term)
    if isinstance(term.get("unwind"), dict):
        out.append(term["unwind"]["cleanup"])
    return out


def subst_types(x, mapping):
    """Simultaneous substitution of generic parameters (type and const) in a MIR fragment: returns a new structure."""
    if isinstance(x, dict):
        if x.get("k") in ("param", "cparam") and x.get("n") in mapping and set(x.keys()) <= {"k", "n", "s"}:
            return copy.deepcopy(mapping[x["n"]])
        return {k: subst_types(v, mapping) for k, v in x.items()}
    if isinstance(x, list):
        return [subst_types(v, mapping) for v in x]
    return x


def generic_mapping(callee, targs):
    """callee generic name -> argument type JSON, or None when the arities differ; {} when the arguments are the callee's own parameters."""
    gs = [g for g in callee.get("generics", []) if g.get("kind") in ("type", "const")]
    if len(gs) != len(targs):
        return None
    m = {}
    for g, t in zip(gs, targs):
        if t.get("k") in ("param", "cparam") and t.get("n") == g["n"]:
            continue
        m[g["n"]] = t
    return m


def identity_generics(callee, targs):
    gs = [g for g in callee.get("generics", []) if g.get("kind") in ("type", "const")]
    if len(gs) != len(targs):
        return False
    for g, t in zip(gs, targs):
        if t.get("k") == "param" and t.get("n") == g["n"]:
            continue
        if t.get("k") == "cparam" and t.get("n") == g["n"]:
            continue
        return False
    return True


def inline_calls(db, body, pred, depth=3):
    """New body dict whose MIR has every call accepted by pred(callee_body, term, chain) inlined (transitively up to `depth`)."""
    mir = copy.deepcopy(body["mir"])
    blocks, locs = mir["blocks"], mir["locals"]
    chain_of = {}  # block index -> tuple of callee keys this block was inlined from
    inlined = []
    changed = True
    rounds = 0
    while changed and rounds < 64:
        changed = False
        rounds += 1
        for bi in range(len(blocks)):
            blk = blocks[bi]
            t = blk["term"]
            if t["k"] != "call" or t["f"].get("k") != "fn" or blk["cleanup"]:
                continue
            chain = chain_of.get(bi, ())
            if len(chain) >= depth:
                continue
            cb = None
            for p in (t["f"].get("res"), t["f"].get("def")):
                if p and db.by_path.get(p) is not None:
                    cb = db.by_path[p]
                    break
            if cb is None or cb["kind"] not in ("Fn", "AssocFn") or cb["key"] == body["key"] or cb["key"] in chain:
                continue
            targs = [a for a in (t["f"].get("res_args") if t["f"].get("res") and db.by_path.get(t["f"]["res"]) is cb else t["f"].get("args", [])) if a.get("k") != "region"]
            gm = generic_mapping(cb, targs)
            if gm is None or not pred(cb, t, chain):
                continue
            cm = subst_types(cb["mir"], gm) if gm else copy.deepcopy(cb["mir"])
            if len(t["args"]) != cm["arg_count"]:
                continue
            off_l, off_b = len(locs), len(blocks)
            for l in cm["locals"]:
                locs.append(l)
            caller_unwind = t["unwind"]["cleanup"] if isinstance(t.get("unwind"), dict) else None
            for cblk in cm["blocks"]:
                _renumber(cblk["stmts"], off_l)
                ct = cblk["term"]
                for fld in ("discr", "p", "cond", "args", "dest"):
                    if fld in ct:
                        _renumber(ct[fld], off_l)
                if ct["k"] == "call" and ct["f"].get("k") == "indirect":
                    _renumber(ct["f"]["op"], off_l)
                _retarget(ct, lambda b: b + off_b)
                if ct["k"] == "return":
                    cblk["stmts"].append({"k": "assign", "lhs": copy.deepcopy(t["dest"]), "rv": {"k": "use", "op": {"k": "move", "p": {"l": off_l, "p": []}}}, "at": t.get("at")})
                    if t.get("target") is not None:
                        cblk["term"] = {"k": "goto", "target": t["target"], "at": ct.get("at"), "exp": ct.get("exp")}
                    else:
                        cblk["term"] = {"k": "unreachable", "at": ct.get("at"), "exp": ct.get("exp")}
                elif ct["k"] == "resume" and caller_unwind is not None:
                    cblk["term"] = {"k": "goto", "target": caller_unwind, "at": ct.get("at"), "exp": ct.get("exp")}
                elif ct["k"] in ("call", "drop", "assert") and ct.get("unwind") == "continue" and caller_unwind is not None and not cblk["cleanup"]:
                    ct["unwind"] = {"cleanup": caller_unwind}
                cblk["inl"] = cb["key"]
                blocks.append(cblk)
                chain_of[len(blocks) - 1] = chain + (cb["key"],)
            # bind the arguments and jump into the helper
            for i, a in enumerate(t["args"]):
                blk["stmts"].append({"k": "assign", "lhs": {"l": off_l + 1 + i, "p": []}, "rv": {"k": "use", "op": a}, "at": t.get("at")})
            blk["term"] = {"k": "goto", "target": off_b, "at": t.get("at"), "exp": t.get("exp")}
            inlined.append({"callee": cb["key"], "at": t.get("at"), "chain": list(chain)})
            changed = True
    nb = dict(body)
    nb["mir"] = mir
    nb["inlined"] = inlined
    return nb


def split_returns(body, max_clones=64):
    """New body dict in which each edge entering the branch-free tail that ends in `return` has a private copy of that tail."""
    mir = copy.deepcopy(body["mir"])
    blocks = mir["blocks"]
    n0 = len(blocks)
    # tail region: blocks from which the only normal continuation is a chain of goto / drop terminators ending in return
    tail = set()
    changed = True
    while changed:
        changed = False
        for i, b in enumerate(blocks):
            if i in tail or b["cleanup"]:
                continue
            t = b["term"]
            if t["k"] == "return" or (t["k"] in ("goto", "drop") and normal_succs(t) and normal_succs(t)[0] in tail):
                tail.add(i)
                changed = True
    if not tail:
        return body
    clones = 0

    def clone_chain(head):
        nonlocal clones
        first = None
        prev = None
        cur = head
        steps = 0
        while True:
            steps += 1
            nb = copy.deepcopy(blocks[cur])
            nb["split_of"] = blocks[cur].get("split_of", cur)
            blocks.append(nb)
            idx = len(blocks) - 1
            clones += 1
            if first is None:
                first = idx
            if prev is not None:
                _set_normal(blocks[prev]["term"], idx)
            prev = idx
            if nb["term"]["k"] == "return" or steps > 64:
                break
            cur = normal_succs(nb["term"])[0]
        return first

    def _set_normal(term, new):
        term["target"] = new

    # entry edges: from a block outside the tail (or a branching block) into the tail
    entries = []
    for i in range(n0):
        b = blocks[i]
        if b["cleanup"] or i in tail:
            continue
        t = b["term"]
        for s in normal_succs(t):
            if s in tail:
                entries.append(i)
                break
    for i in entries:
        t = blocks[i]["term"]
        k = t["k"]

        def redirect(b):
            nonlocal clones
            if b not in tail or clones > max_clones:
                return b
            return clone_chain(b)
        if k == "goto":
            t["target"] = redirect(t["target"])
        elif k == "switch":
            t["targets"] = [[v, redirect(b)] for v, b in t["targets"]]
            t["otherwise"] = redirect(t["otherwise"])
        elif k in ("drop", "assert", "call"):
            if t.get("target") is not None:
                t["target"] = redirect(t["target"])
    nb = dict(body)
    nb["mir"] = mir
    return nb


def _edge_slots(term):
    """Normal-successor slots of a terminator as (getter, setter) pairs, one per edge occurrence."""
    k = term["k"]
    out = []
    if k == "goto":
        out.append((lambda: term["target"], lambda v: term.__setitem__("target", v)))
    elif k == "switch":
        for i in range(len(term["targets"])):
            out.append((lambda i=i: term["targets"][i][1], lambda v, i=i: term["targets"][i].__setitem__(1, v)))
        out.append((lambda: term["otherwise"], lambda v: term.__setitem__("otherwise", v)))
    elif k in ("drop", "assert", "call"):
        if term.get("target") is not None:
            out.append((lambda: term["target"], lambda v: term.__setitem__("target", v)))
    return out


def _normal_cyclic(blocks):
    color = {}
    stack = [(0, iter(normal_succs(blocks[0]["term"])))]
    color[0] = 1
    while stack:
        b, it = stack[-1]
        nxt = next(it, None)
        if nxt is None:
            color[b] = 2
            stack.pop()
            continue
        if blocks[nxt]["cleanup"]:
            continue
        if color.get(nxt) == 1:
            return True
        if nxt not in color:
            color[nxt] = 1
            stack.append((nxt, iter(normal_succs(blocks[nxt]["term"]))))
    return False


def _acyclic_suffix(blocks):
    """Non-cleanup blocks from which no normal-edge cycle is reachable (for a loop-free body: all of them)."""
    n = len(blocks)
    succ = {i: [s for s in normal_succs(blocks[i]["term"]) if not blocks[s]["cleanup"]] for i in range(n) if not blocks[i]["cleanup"]}
    # blocks on a cycle: i reaches itself
    on_cycle = set()
    for i in succ:
        seen, work = set(), list(succ[i])
        while work:
            x = work.pop()
            if x in seen:
                continue
            seen.add(x)
            work.extend(succ.get(x, []))
        if i in seen:
            on_cycle.add(i)
    bad = set(on_cycle)
    changed = True
    while changed:
        changed = False
        for i in succ:
            if i not in bad and any(s in bad for s in succ[i]):
                bad.add(i)
                changed = True
    return {i for i in succ if i not in bad}


def treeify(body, cap=600):
    """New body dict in which the loop-free part of the normal (non-cleanup) control-flow graph that lies after all loops is a tree:
    every such block reached along more than one path is duplicated per path, so the abstract interpreter never merges states there
    (no phis) and each return block stands for one path.  For a loop-free body that is the whole body.  Blocks on or before a loop are
    kept shared.  Falls back to split_returns when more than `cap` copies would be needed."""
    src = body["mir"]["blocks"]
    dup_ok = _acyclic_suffix(src)
    if not dup_ok:
        return split_returns(body)
    mir = copy.deepcopy(body["mir"])
    blocks = mir["blocks"]
    for b in blocks:
        if b["term"]["k"] == "switch":
            b["term"]["targets"] = [list(x) for x in b["term"]["targets"]]
    claimed = {0}
    clones = 0
    work = [0]
    while work:
        bi = work.pop()
        for get, put in _edge_slots(blocks[bi]["term"]):
            s = get()
            if blocks[s]["cleanup"]:
                continue
            o = blocks[s].get("split_of", s)
            if s not in claimed:
                claimed.add(s)
                work.append(s)
                continue
            if o not in dup_ok:
                continue  # a shared block (on or before a loop): states merge here as usual
            # a clone must point at the ORIGINAL successors (the first copy was rewired in place): copy from the pristine source
            nb = copy.deepcopy(src[o])
            if nb["term"]["k"] == "switch":
                nb["term"]["targets"] = [list(x) for x in nb["term"]["targets"]]
            nb["split_of"] = o
            blocks.append(nb)
            clones += 1
            if clones > cap:
                return split_returns(body)
            idx = len(blocks) - 1
            claimed.add(idx)
            put(idx)
            work.append(idx)
    nb = dict(body)
    nb["mir"] = mir
    return nb


def _splice(blocks, locs, cm, dest, target, caller_unwind, at, tag):
    """Append callee MIR `cm` (already type-substituted, deep copy) to blocks/locs; returns (local offset, entry block index).
    Callee returns store _0 into `dest` and jump to `target`."""
    off_l, off_b = len(locs), len(blocks)
    for l in cm["locals"]:
        locs.append(l)
    for cblk in cm["blocks"]:
        _renumber(cblk["stmts"], off_l)
        ct = cblk["term"]
        for fld in ("discr", "p", "cond", "args", "dest"):
            if fld in ct:
                _renumber(ct[fld], off_l)
        if ct["k"] == "call" and ct["f"].get("k") == "indirect":
            _renumber(ct["f"]["op"], off_l)
        _retarget(ct, lambda b: b + off_b)
        if ct["k"] == "return":
            cblk["stmts"].append({"k": "assign", "lhs": copy.deepcopy(dest), "rv": {"k": "use", "op": {"k": "move", "p": {"l": off_l, "p": []}}}, "at": at})
            cblk["term"] = {"k": "goto", "target": target, "at": ct.get("at"), "exp": ct.get("exp")} if target is not None else {"k": "unreachable", "at": ct.get("at"), "exp": ct.get("exp")}
        elif ct["k"] == "resume" and caller_unwind is not None:
            cblk["term"] = {"k": "goto", "target": caller_unwind, "at": ct.get("at"), "exp": ct.get("exp")}
        elif ct["k"] in ("call", "drop", "assert") and ct.get("unwind") == "continue" and caller_unwind is not None and not cblk["cleanup"]:
            ct["unwind"] = {"cleanup": caller_unwind}
        cblk["inl"] = tag
        blocks.append(cblk)
    return off_l, off_b


OPTION_COMBINATORS = {"core::option::Option::<T>::map_or": "map_or", "core::option::Option::<T>::unwrap_or": "unwrap_or",
                      "core::option::Option::<T>::map_or_else": None,
                      "core::option::Option::<T>::is_some_and": "is_some_and", "core::option::Option::<T>::is_none_or": "is_none_or"}


def desugar_option_calls(db, body):
    """`opt.map_or(d, |x| e)` and `opt.unwrap_or(d)` rewritten as the `match` they are (the closure literal expanded in the Some arm),
    so a clamp written with a combinator is the same code to the rules as one written with `match`."""
    mir = None
    for bi, blk0 in enumerate(body["mir"]["blocks"]):
        t0 = blk0["term"]
        if not (t0["k"] == "call" and t0["f"].get("k") == "fn" and OPTION_COMBINATORS.get(t0["f"]["def"]) and not blk0["cleanup"] and t0.get("target") is not None):
            continue
        if mir is None:
            mir = copy.deepcopy(body["mir"])
        blocks, locs = mir["blocks"], mir["locals"]
        blk = blocks[bi]
        t = blk["term"]
        kind = OPTION_COMBINATORS[t["f"]["def"]]
        opt = t["args"][0]
        if opt.get("k") not in ("move", "copy"):
            continue
        optp = opt["p"]
        unwind = t["unwind"]["cleanup"] if isinstance(t.get("unwind"), dict) else None
        payload_ty = [a for a in t["f"].get("args", []) if a.get("k") != "region"][0]
        cb = None
        dflt = t["args"][1] if len(t["args"]) > 1 else None
        if kind in ("is_some_and", "is_none_or"):
            # `opt.is_some_and(f)` = match opt { None => false, Some(x) => f(x) }; `is_none_or` the same with true
            dflt = {"k": "const", "c": {"k": "int", "v": 1 if kind == "is_none_or" else 0}, "ty": {"k": "prim", "n": "bool"}, "s": "const bool"}
        if kind in ("map_or", "is_some_and", "is_none_or"):
            clop = t["args"][2] if kind == "map_or" else t["args"][1]
            cty = locs[clop["p"]["l"]]["ty"] if clop.get("k") in ("move", "copy") and not clop["p"]["p"] else None
            cb = db.by_path.get(cty["def"]) if cty is not None and cty.get("k") == "closure" else None
            if cb is None or cb["mir"]["arg_count"] != 2:
                continue
        # discriminant + switch
        locs.append({"ty": {"k": "prim", "n": "isize"}, "s": "isize"})
        ld = len(locs) - 1
        none_b = {"cleanup": False, "stmts": [{"k": "assign", "lhs": copy.deepcopy(t["dest"]), "rv": {"k": "use", "op": copy.deepcopy(dflt)}, "at": t.get("at")}],
                  "term": {"k": "goto", "target": t["target"], "at": t.get("at"), "exp": t.get("exp")}, "inl": "desugar"}
        blocks.append(none_b)
        none_i = len(blocks) - 1
        some_payload = {"l": optp["l"], "p": list(optp["p"]) + [{"down": 1}, {"f": 0, "ty": payload_ty}]}
        if kind == "unwrap_or":
            some_b = {"cleanup": False, "stmts": [{"k": "assign", "lhs": copy.deepcopy(t["dest"]), "rv": {"k": "use", "op": {"k": "move", "p": some_payload}}, "at": t.get("at")}],
                      "term": {"k": "goto", "target": t["target"], "at": t.get("at"), "exp": t.get("exp")}, "inl": "desugar"}
            blocks.append(some_b)
            some_i = len(blocks) - 1
        else:
            cm = copy.deepcopy(cb["mir"])
            off_l, off_b = _splice(blocks, locs, cm, t["dest"], t["target"], unwind, t.get("at"), cb["key"])
            env_ty = cm["locals"][1]["ty"] if len(cm["locals"]) > 1 else None
            binds = []
            if env_ty is not None and env_ty.get("k") == "ref":
                binds.append({"k": "assign", "lhs": {"l": off_l + 1, "p": []}, "rv": {"k": "ref", "mut": bool(env_ty.get("mut")), "bk": "Shared", "p": copy.deepcopy(clop["p"])}, "at": t.get("at")})
            else:
                binds.append({"k": "assign", "lhs": {"l": off_l + 1, "p": []}, "rv": {"k": "use", "op": copy.deepcopy(clop)}, "at": t.get("at")})
            binds.append({"k": "assign", "lhs": {"l": off_l + 2, "p": []}, "rv": {"k": "use", "op": {"k": "move", "p": some_payload}}, "at": t.get("at")})
            some_b = {"cleanup": False, "stmts": binds, "term": {"k": "goto", "target": off_b, "at": t.get("at"), "exp": t.get("exp")}, "inl": "desugar"}
            blocks.append(some_b)
            some_i = len(blocks) - 1
        blk["stmts"].append({"k": "assign", "lhs": {"l": ld, "p": []}, "rv": {"k": "discr", "p": copy.deepcopy(optp)}, "at": t.get("at")})
        blk["term"] = {"k": "switch", "discr": {"k": "move", "p": {"l": ld, "p": []}}, "targets": [[0, none_i]], "otherwise": some_i, "at": t.get("at"), "exp": t.get("exp")}
    if mir is None:
        return body
    nb = dict(body)
    nb["mir"] = mir
    return nb


RANGE_NEW = {"core::ops::RangeInclusive::<Idx>::new": True}
RANGE_CONTAINS = {"core::ops::RangeInclusive::<Idx>::contains": True, "core::ops::Range::<Idx>::contains": False}


def desugar_range_calls(db, body):
    """`RangeInclusive::new(a, b)` rewritten as the struct literal it is and `(a..=b).contains(&x)` / `(a..b).contains(&x)` on integers as the
    two comparisons they are (`a <= x` and then `x <= b` resp. `x < b`, as control flow), so an interval test written with `contains` is the same
    code to the rules as one written with comparisons. Only integer index types (the library bodies are `PartialOrd` on the items; for the
    primitive integers that is the built-in comparison) and only ranges that have not been iterated (a fresh `RangeInclusive` is not exhausted)."""
    mir = None
    ints = ("usize", "u8", "u16", "u32", "u64", "u128", "isize", "i8", "i16", "i32", "i64", "i128")
    for bi, blk0 in enumerate(body["mir"]["blocks"]):
        t0 = blk0["term"]
        if not (t0["k"] == "call" and t0["f"].get("k") == "fn" and (t0["f"]["def"] in RANGE_NEW or t0["f"]["def"] in RANGE_CONTAINS) and not blk0["cleanup"] and t0.get("target") is not None):
            continue
        targs = [a for a in t0["f"].get("args", []) if a.get("k") != "region"]
        if not targs or any(a.get("k") != "prim" or a.get("n") not in ints for a in targs):
            continue
        if mir is None:
            mir = copy.deepcopy(body["mir"])
        blocks, locs = mir["blocks"], mir["locals"]
        blk = blocks[bi]
        t = blk["term"]
        idx = targs[0]
        boolty = {"k": "prim", "n": "bool"}

        def cbool(v):
            return {"k": "const", "ty": boolty, "c": {"k": "int", "v": v, "size": 1}, "s": "true" if v else "false"}
        if t["f"]["def"] in RANGE_NEW:
            blk["stmts"].append({"k": "assign", "lhs": copy.deepcopy(t["dest"]), "at": t.get("at"),
                                 "rv": {"k": "agg", "ak": "Adt", "x": {"def": "core::ops::RangeInclusive", "variant": 0, "args": [idx], "active": None},
                                        "ops": [copy.deepcopy(t["args"][0]), copy.deepcopy(t["args"][1]), cbool(0)]}})
            blk["term"] = {"k": "goto", "target": t["target"], "at": t.get("at"), "exp": t.get("exp")}
            continue
        inclusive = RANGE_CONTAINS[t["f"]["def"]]
        r, x = t["args"][0], t["args"][1]
        if r.get("k") not in ("move", "copy") or x.get("k") not in ("move", "copy"):
            continue

        def fld(op, i):
            return {"k": "copy", "p": {"l": op["p"]["l"], "p": list(op["p"]["p"]) + ["*", {"f": i, "ty": idx}]}}
        xv = {"k": "copy", "p": {"l": x["p"]["l"], "p": list(x["p"]["p"]) + ["*"]}}
        locs.append({"ty": boolty, "s": "bool"})
        l1 = len(locs) - 1
        locs.append({"ty": boolty, "s": "bool"})
        l2 = len(locs) - 1

        def out(v):
            blocks.append({"cleanup": False, "stmts": [{"k": "assign", "lhs": copy.deepcopy(t["dest"]), "rv": {"k": "use", "op": cbool(v)}, "at": t.get("at")}],
                           "term": {"k": "goto", "target": t["target"], "at": t.get("at"), "exp": t.get("exp")}, "inl": "desugar"})
            return len(blocks) - 1
        bt, bf = out(1), out(0)
        blocks.append({"cleanup": False, "stmts": [{"k": "assign", "lhs": {"l": l2, "p": []}, "rv": {"k": "bin", "op": "Le" if inclusive else "Lt", "a": xv, "b": fld(r, 1)}, "at": t.get("at")}],
                       "term": {"k": "switch", "discr": {"k": "move", "p": {"l": l2, "p": []}}, "targets": [[0, bf]], "otherwise": bt, "at": t.get("at"), "exp": t.get("exp")}, "inl": "desugar"})
        b2 = len(blocks) - 1
        blk["stmts"].append({"k": "assign", "lhs": {"l": l1, "p": []}, "rv": {"k": "bin", "op": "Le", "a": fld(r, 0), "b": copy.deepcopy(xv)}, "at": t.get("at")})
        blk["term"] = {"k": "switch", "discr": {"k": "move", "p": {"l": l1, "p": []}}, "targets": [[0, bf]], "otherwise": b2, "at": t.get("at"), "exp": t.get("exp")}
    if mir is None:
        return body
    nb = dict(body)
    nb["mir"] = mir
    return nb


def desugar_result_map(db, body):
    """`res.map(|x| e)` with a closure literal rewritten as the `match res { Ok(x) => Ok(e), Err(err) => Err(err) }` it is."""
    mir = None
    for bi, blk0 in enumerate(body["mir"]["blocks"]):
        t0 = blk0["term"]
        if not (t0["k"] == "call" and t0["f"].get("k") == "fn" and t0["f"]["def"] == "core::result::Result::<T, E>::map" and not blk0["cleanup"] and t0.get("target") is not None):
            continue
        src_locs = (mir or body["mir"])["locals"]
        res, clop = t0["args"][0], t0["args"][1]
        if res.get("k") not in ("move", "copy") or clop.get("k") not in ("move", "copy") or clop["p"]["p"]:
            continue
        cty = src_locs[clop["p"]["l"]]["ty"]
        cb = db.by_path.get(cty["def"]) if cty.get("k") == "closure" else None
        if cb is None or cb["mir"]["arg_count"] != 2:
            continue
        targs = [a for a in t0["f"].get("args", []) if a.get("k") != "region"]
        if len(targs) < 2:
            continue
        if mir is None:
            mir = copy.deepcopy(body["mir"])
        blocks, locs = mir["blocks"], mir["locals"]
        blk = blocks[bi]
        t = blk["term"]
        T_, E_ = targs[0], targs[1]
        U_ = cb["mir"]["locals"][0]["ty"]
        resp = t["args"][0]["p"]
        unwind = t["unwind"]["cleanup"] if isinstance(t.get("unwind"), dict) else None
        at = t.get("at")
        rx = {"def": "core::result::Result", "args": [U_, E_], "active": None}
        # Err arm
        err_payload = {"l": resp["l"], "p": list(resp["p"]) + [{"down": 1}, {"f": 0, "ty": E_}]}
        blocks.append({"cleanup": False, "stmts": [{"k": "assign", "lhs": copy.deepcopy(t["dest"]), "at": at,
                                                    "rv": {"k": "agg", "ak": "Adt", "x": dict(rx, variant=1), "ops": [{"k": "move", "p": err_payload}]}}],
                       "term": {"k": "goto", "target": t["target"], "at": at, "exp": t.get("exp")}, "inl": "desugar"})
        err_i = len(blocks) - 1
        # Ok arm: closure body spliced, its result wrapped in Ok
        locs.append({"ty": U_, "s": "map-result"})
        lt = len(locs) - 1
        blocks.append({"cleanup": False, "stmts": [{"k": "assign", "lhs": copy.deepcopy(t["dest"]), "at": at,
                                                    "rv": {"k": "agg", "ak": "Adt", "x": dict(rx, variant=0), "ops": [{"k": "move", "p": {"l": lt, "p": []}}]}}],
                       "term": {"k": "goto", "target": t["target"], "at": at, "exp": t.get("exp")}, "inl": "desugar"})
        wrap_i = len(blocks) - 1
        cm = copy.deepcopy(cb["mir"])
        off_l, off_b = _splice(blocks, locs, cm, {"l": lt, "p": []}, wrap_i, unwind, at, cb["key"])
        env_ty = cm["locals"][1]["ty"] if len(cm["locals"]) > 1 else None
        binds = []
        if env_ty is not None and env_ty.get("k") == "ref":
            binds.append({"k": "assign", "lhs": {"l": off_l + 1, "p": []}, "rv": {"k": "ref", "mut": bool(env_ty.get("mut")), "bk": "Shared", "p": copy.deepcopy(clop["p"])}, "at": at})
        else:
            binds.append({"k": "assign", "lhs": {"l": off_l + 1, "p": []}, "rv": {"k": "use", "op": copy.deepcopy(clop)}, "at": at})
        ok_payload = {"l": resp["l"], "p": list(resp["p"]) + [{"down": 0}, {"f": 0, "ty": T_}]}
        binds.append({"k": "assign", "lhs": {"l": off_l + 2, "p": []}, "rv": {"k": "use", "op": {"k": "move", "p": ok_payload}}, "at": at})
        blocks.append({"cleanup": False, "stmts": binds, "term": {"k": "goto", "target": off_b, "at": at, "exp": t.get("exp")}, "inl": "desugar"})
        ok_i = len(blocks) - 1
        locs.append({"ty": {"k": "prim", "n": "isize"}, "s": "isize"})
        ld = len(locs) - 1
        blk["stmts"].append({"k": "assign", "lhs": {"l": ld, "p": []}, "rv": {"k": "discr", "p": copy.deepcopy(resp)}, "at": at})
        blk["term"] = {"k": "switch", "discr": {"k": "move", "p": {"l": ld, "p": []}}, "targets": [[0, ok_i]], "otherwise": err_i, "at": at, "exp": t.get("exp")}
    if mir is None:
        return body
    nb = dict(body)
    nb["mir"] = mir
    return nb


def desugar_bool_then(db, body):
    """`cond.then(|| e)` with a closure literal rewritten as `if cond { Some(e) } else { None }` (and `cond.then_some(v)` likewise), so a
    guard written with the combinator is the same code to the rules as one written with `if`."""
    mir = None
    for bi, blk0 in enumerate(body["mir"]["blocks"]):
        t0 = blk0["term"]
        if not (t0["k"] == "call" and t0["f"].get("k") == "fn" and t0["f"]["def"] in ("core::bool::<impl bool>::then", "core::bool::<impl bool>::then_some")
                and not blk0["cleanup"] and t0.get("target") is not None and len(t0["args"]) == 2):
            continue
        src_locs = (mir or body["mir"])["locals"]
        cond, clop = t0["args"][0], t0["args"][1]
        is_then = t0["f"]["def"].endswith("::then")
        targs = [a for a in t0["f"].get("args", []) if a.get("k") != "region"]
        if not targs:
            continue
        cb = None
        if is_then:
            if clop.get("k") not in ("move", "copy") or clop["p"]["p"]:
                continue
            cty = src_locs[clop["p"]["l"]]["ty"]
            cb = db.by_path.get(cty["def"]) if cty.get("k") == "closure" else None
            if cb is None or cb["mir"]["arg_count"] != 1:
                continue
        if mir is None:
            mir = copy.deepcopy(body["mir"])
        blocks, locs = mir["blocks"], mir["locals"]
        blk = blocks[bi]
        t = blk["term"]
        T_ = targs[0]
        at = t.get("at")
        unwind = t["unwind"]["cleanup"] if isinstance(t.get("unwind"), dict) else None
        ox = {"def": "core::option::Option", "args": [T_], "active": None}
        blocks.append({"cleanup": False, "stmts": [{"k": "assign", "lhs": copy.deepcopy(t["dest"]), "at": at, "rv": {"k": "agg", "ak": "Adt", "x": dict(ox, variant=0), "ops": []}}],
                       "term": {"k": "goto", "target": t["target"], "at": at, "exp": t.get("exp")}, "inl": "desugar"})
        none_i = len(blocks) - 1
        if is_then:
            locs.append({"ty": T_, "s": "then-result"})
            lt = len(locs) - 1
            blocks.append({"cleanup": False, "stmts": [{"k": "assign", "lhs": copy.deepcopy(t["dest"]), "at": at,
                                                        "rv": {"k": "agg", "ak": "Adt", "x": dict(ox, variant=1), "ops": [{"k": "move", "p": {"l": lt, "p": []}}]}}],
                           "term": {"k": "goto", "target": t["target"], "at": at, "exp": t.get("exp")}, "inl": "desugar"})
            wrap_i = len(blocks) - 1
            cm = copy.deepcopy(cb["mir"])
            off_l, off_b = _splice(blocks, locs, cm, {"l": lt, "p": []}, wrap_i, unwind, at, cb["key"])
            binds = [{"k": "assign", "lhs": {"l": off_l + 1, "p": []}, "rv": {"k": "use", "op": copy.deepcopy(clop)}, "at": at}]   # FnOnce: the closure by value
            blocks.append({"cleanup": False, "stmts": binds, "term": {"k": "goto", "target": off_b, "at": at, "exp": t.get("exp")}, "inl": "desugar"})
            some_i = len(blocks) - 1
        else:
            blocks.append({"cleanup": False, "stmts": [{"k": "assign", "lhs": copy.deepcopy(t["dest"]), "at": at,
                                                        "rv": {"k": "agg", "ak": "Adt", "x": dict(ox, variant=1), "ops": [copy.deepcopy(clop)]}}],
                           "term": {"k": "goto", "target": t["target"], "at": at, "exp": t.get("exp")}, "inl": "desugar"})
            some_i = len(blocks) - 1
        blk["term"] = {"k": "switch", "discr": copy.deepcopy(cond), "targets": [[0, none_i]], "otherwise": some_i, "at": at, "exp": t.get("exp")}
    if mir is None:
        return body
    nb = dict(body)
    nb["mir"] = mir
    return nb


def desugar_option_filter(db, body):
    """`opt.filter(|x| p(x))` with a closure literal rewritten as `match opt { Some(x) if p(&x) => Some(x), _ => None }`."""
    mir = None
    for bi, blk0 in enumerate(body["mir"]["blocks"]):
        t0 = blk0["term"]
        if not (t0["k"] == "call" and t0["f"].get("k") == "fn" and t0["f"]["def"] == "core::option::Option::<T>::filter" and not blk0["cleanup"] and t0.get("target") is not None):
            continue
        src_locs = (mir or body["mir"])["locals"]
        opt, clop = t0["args"][0], t0["args"][1]
        if opt.get("k") not in ("move", "copy") or clop.get("k") not in ("move", "copy") or clop["p"]["p"]:
            continue
        cty = src_locs[clop["p"]["l"]]["ty"]
        cb = db.by_path.get(cty["def"]) if cty.get("k") == "closure" else None
        if cb is None or cb["mir"]["arg_count"] != 2:
            continue
        targs = [a for a in t0["f"].get("args", []) if a.get("k") != "region"]
        if not targs:
            continue
        if mir is None:
            mir = copy.deepcopy(body["mir"])
        blocks, locs = mir["blocks"], mir["locals"]
        blk = blocks[bi]
        t = blk["term"]
        T_ = targs[0]
        optp = t["args"][0]["p"]
        unwind = t["unwind"]["cleanup"] if isinstance(t.get("unwind"), dict) else None
        at = t.get("at")
        ox = {"def": "core::option::Option", "args": [T_], "active": None}
        payload = {"l": optp["l"], "p": list(optp["p"]) + [{"down": 1}, {"f": 0, "ty": T_}]}

        def arm(stmts):
            blocks.append({"cleanup": False, "stmts": stmts, "term": {"k": "goto", "target": t["target"], "at": at, "exp": t.get("exp")}, "inl": "desugar"})
            return len(blocks) - 1
        none_i = arm([{"k": "assign", "lhs": copy.deepcopy(t["dest"]), "at": at, "rv": {"k": "agg", "ak": "Adt", "x": dict(ox, variant=0), "ops": []}}])
        keep_i = arm([{"k": "assign", "lhs": copy.deepcopy(t["dest"]), "at": at, "rv": {"k": "agg", "ak": "Adt", "x": dict(ox, variant=1), "ops": [{"k": "move", "p": copy.deepcopy(payload)}]}}])
        boolty = {"k": "prim", "n": "bool"}
        locs.append({"ty": boolty, "s": "bool"})
        lb = len(locs) - 1
        blocks.append({"cleanup": False, "stmts": [], "term": {"k": "switch", "discr": {"k": "move", "p": {"l": lb, "p": []}}, "targets": [[0, none_i]], "otherwise": keep_i, "at": at, "exp": t.get("exp")}, "inl": "desugar"})
        test_i = len(blocks) - 1
        cm = copy.deepcopy(cb["mir"])
        off_l, off_b = _splice(blocks, locs, cm, {"l": lb, "p": []}, test_i, unwind, at, cb["key"])
        env_ty = cm["locals"][1]["ty"] if len(cm["locals"]) > 1 else None
        binds = []
        if env_ty is not None and env_ty.get("k") == "ref":
            binds.append({"k": "assign", "lhs": {"l": off_l + 1, "p": []}, "rv": {"k": "ref", "mut": bool(env_ty.get("mut")), "bk": "Shared", "p": copy.deepcopy(clop["p"])}, "at": at})
        else:
            binds.append({"k": "assign", "lhs": {"l": off_l + 1, "p": []}, "rv": {"k": "use", "op": copy.deepcopy(clop)}, "at": at})
        binds.append({"k": "assign", "lhs": {"l": off_l + 2, "p": []}, "rv": {"k": "ref", "mut": False, "bk": "Shared", "p": copy.deepcopy(payload)}, "at": at})
        blocks.append({"cleanup": False, "stmts": binds, "term": {"k": "goto", "target": off_b, "at": at, "exp": t.get("exp")}, "inl": "desugar"})
        some_i = len(blocks) - 1
        locs.append({"ty": {"k": "prim", "n": "isize"}, "s": "isize"})
        ld = len(locs) - 1
        blk["stmts"].append({"k": "assign", "lhs": {"l": ld, "p": []}, "rv": {"k": "discr", "p": copy.deepcopy(optp)}, "at": at})
        blk["term"] = {"k": "switch", "discr": {"k": "move", "p": {"l": ld, "p": []}}, "targets": [[0, none_i]], "otherwise": some_i, "at": at, "exp": t.get("exp")}
    if mir is None:
        return body
    nb = dict(body)
    nb["mir"] = mir
    return nb


def thread_desugared_jumps(body):
    """Jump threading for the arms the desugarings above create: an arm that stores an enum value of a KNOWN variant into `d` and jumps to a block
    that does nothing but read `discriminant(d)` and switch on it continues directly at that variant's target (the test block's statements are
    copied into the arm). Semantics-preserving; it keeps the correlation between the arm taken and the variant seen, which a merge would lose."""
    mir = body["mir"]
    blocks = mir["blocks"]
    todo = []
    for ai, arm in enumerate(blocks):
        if arm.get("inl") != "desugar" or arm["term"]["k"] != "goto" or not arm["stmts"]:
            continue
        last = arm["stmts"][-1]
        if not (last["k"] == "assign" and last["rv"].get("k") == "agg" and last["rv"].get("ak") == "Adt" and not last["lhs"]["p"]):
            continue
        d, v = last["lhs"]["l"], last["rv"]["x"].get("variant")
        tgt = blocks[arm["term"]["target"]]
        tt = tgt["term"]
        if tt["k"] != "switch" or tt["discr"].get("k") not in ("move", "copy") or tt["discr"]["p"]["p"]:
            continue
        dl = tt["discr"]["p"]["l"]
        ok, reads = True, False
        for s_ in tgt["stmts"]:
            if s_["k"] in ("slive", "sdead"):
                continue
            if s_["k"] == "assign" and not s_["lhs"]["p"] and s_["lhs"]["l"] == dl and s_["rv"].get("k") == "discr" and s_["rv"]["p"] == {"l": d, "p": []}:
                reads = True
                continue
            ok = False
        if not (ok and reads) or v is None:
            continue
        dest = tt["otherwise"]
        for val, b_ in tt["targets"]:
            if val == v:
                dest = b_
        todo.append((ai, arm["term"]["target"], dest))
    if not todo:
        return body
    mir = copy.deepcopy(mir)
    for ai, ti, dest in todo:
        arm = mir["blocks"][ai]
        arm["stmts"] = arm["stmts"] + copy.deepcopy(mir["blocks"][ti]["stmts"])
        arm["term"] = dict(arm["term"], target=dest)
    nb = dict(body)
    nb["mir"] = mir
    return nb


CHECKED_ARITH = {"core::num::<impl usize>::checked_div": "Div", "core::num::<impl usize>::checked_rem": "Rem", "core::num::<impl usize>::checked_sub": "Sub"}


def desugar_checked_arith(db, body):
    """`a.checked_div(b)` / `a.checked_rem(b)` on usize rewritten as `if b == 0 { None } else { Some(a / b) }` (resp. `%`), and
    `a.checked_sub(b)` as `if a < b { None } else { Some(a - b) }`: what std's bodies do for unsigned integers."""
    mir = None
    for bi, blk0 in enumerate(body["mir"]["blocks"]):
        t0 = blk0["term"]
        if not (t0["k"] == "call" and t0["f"].get("k") == "fn" and t0["f"]["def"] in CHECKED_ARITH and not blk0["cleanup"] and t0.get("target") is not None and len(t0["args"]) == 2):
            continue
        if mir is None:
            mir = copy.deepcopy(body["mir"])
        blocks, locs = mir["blocks"], mir["locals"]
        blk = blocks[bi]
        t = blk["term"]
        op = CHECKED_ARITH[t["f"]["def"]]
        at = t.get("at")
        us = {"k": "prim", "n": "usize"}
        boolty = {"k": "prim", "n": "bool"}
        ox = {"def": "core::option::Option", "args": [us], "active": None}
        a_, b_ = t["args"]

        def cp(o):
            o = copy.deepcopy(o)
            if o.get("k") == "move":
                o["k"] = "copy"
            return o
        locs.append({"ty": boolty, "s": "bool"})
        lc = len(locs) - 1
        locs.append({"ty": us, "s": "usize"})
        lv = len(locs) - 1
        blocks.append({"cleanup": False, "stmts": [{"k": "assign", "lhs": copy.deepcopy(t["dest"]), "at": at, "rv": {"k": "agg", "ak": "Adt", "x": dict(ox, variant=0), "ops": []}}],
                       "term": {"k": "goto", "target": t["target"], "at": at, "exp": t.get("exp")}, "inl": "desugar"})
        none_i = len(blocks) - 1
        blocks.append({"cleanup": False, "stmts": [{"k": "assign", "lhs": {"l": lv, "p": []}, "at": at, "rv": {"k": "bin", "op": op, "a": cp(a_), "b": cp(b_)}},
                                                    {"k": "assign", "lhs": copy.deepcopy(t["dest"]), "at": at, "rv": {"k": "agg", "ak": "Adt", "x": dict(ox, variant=1), "ops": [{"k": "move", "p": {"l": lv, "p": []}}]}}],
                       "term": {"k": "goto", "target": t["target"], "at": at, "exp": t.get("exp")}, "inl": "desugar"})
        some_i = len(blocks) - 1
        if op == "Sub":
            test = {"k": "bin", "op": "Lt", "a": cp(a_), "b": cp(b_)}
        else:
            test = {"k": "bin", "op": "Eq", "a": cp(b_), "b": {"k": "const", "ty": us, "c": {"k": "int", "v": 0, "size": 8}, "s": "0_usize"}}
        blk["stmts"].append({"k": "assign", "lhs": {"l": lc, "p": []}, "rv": test, "at": at})
        blk["term"] = {"k": "switch", "discr": {"k": "move", "p": {"l": lc, "p": []}}, "targets": [[0, some_i]], "otherwise": none_i, "at": at, "exp": t.get("exp")}
    if mir is None:
        return body
    nb = dict(body)
    nb["mir"] = mir
    return nb
