"""Shared recognisers and premise rules used by several properties."""

from .poly import Poly
from .core import PROVED, REFUTED, UNKNOWN, MISSING
from .tys import tstr, is_ga, adt_args

VIEW_FNS = {
    "core::ops::Deref::deref", "core::ops::DerefMut::deref_mut",
    "GenericArray::<T, N>::as_slice", "GenericArray::<T, N>::as_mut_slice",
}

PANIC_PLUMBING = (
    "core::fmt::Arguments", "core::fmt::rt::Argument", "core::panicking::", "core::fmt::rt::",
)

K_AS_SLICE = "GenericArray<$0,$1>::as_slice"
K_AS_MUT_SLICE = "GenericArray<$0,$1>::as_mut_slice"
K_DEREF = "<GenericArray<$0,$1> as core::ops::Deref>::deref"
K_DEREF_MUT = "<GenericArray<$0,$1> as core::ops::DerefMut>::deref_mut"


def is_view(cs):
    if cs.key in (K_AS_SLICE, K_AS_MUT_SLICE):
        return True
    from .absint import SLICE_VIEW_IMPLS
    if cs.key in SLICE_VIEW_IMPLS and cs.ret is not None and cs.ret[0] == "P":
        return True  # the crate's AsRef / AsMut / Borrow / BorrowMut<[T]>: modelled as the full view (their bodies: C02.D / C13.B)
    if cs.key in ("GenericArray<$0,$1>::slice_from_chunks", "GenericArray<$0,$1>::slice_from_chunks_mut") and cs.ret is not None and cs.ret[0] == "P":
        return True  # the flattening views: modelled as (same address, len * N elements), verified against their bodies by check_views
    if cs.fn in ("core::slice::from_raw_parts", "core::slice::from_raw_parts_mut", "core::ptr::slice_from_raw_parts", "core::ptr::slice_from_raw_parts_mut") \
            and cs.ret is not None and cs.ret[0] == "P" and cs.ret[3] is not None:
        return True  # a slice pointer put together from a pointer and a length: address and length are carried by the pointer value itself
    if cs.fn in ("core::slice::from_ref", "core::slice::from_mut") and cs.ret is not None and cs.ret[0] == "P":
        return True  # the one-element slice over the referent
    if cs.key == "GenericArray<$0,$1>::len":
        return True  # modelled constant N (spec checked by rules.check_views)
    if cs.fn.startswith("core::ptr::const_ptr::<impl *const T>::") or cs.fn.startswith("core::ptr::mut_ptr::<impl *mut T>::"):
        if cs.ret is not None and cs.ret[0] == "P":
            return True  # pointer arithmetic / casts are carried by the pointer value
    if cs.fn in ("core::ops::Deref::deref", "core::ops::DerefMut::deref_mut"):
        t = cs.targs[0] if cs.targs else None
        if t is not None and (is_ga(t) or (t.get("k") == "adt" and t["def"] == "core::mem::ManuallyDrop")):
            return True
    if cs.fn in ("core::ops::Index::index", "core::ops::IndexMut::index_mut", "core::slice::<impl [T]>::get_unchecked",
                 "core::slice::<impl [T]>::get_unchecked_mut") and cs.ret is not None and cs.ret[0] == "P" and cs.args and cs.args[0][0] == "P" and cs.ret[1] == cs.args[0][1]:
        return True  # sub-slicing: the selected range is carried by the pointer value itself
    return False


def through_ref(a, cs, i):
    """Argument i of a call whose parameter type is `&&[T]`-like: the pointer stored in the pointed-to local."""
    v = cs.args[i]
    if v[0] == "P" and not v[2].t:
        inner = cs.mem.get((v[1], ()))
        if inner is not None and inner[0] == "P":
            return inner
    return v


def is_panic_plumbing(cs):
    return any(cs.fn.startswith(p) for p in PANIC_PLUMBING)


def payload_calls(a):
    return [c for c in a.calls if not is_view(c) and not is_panic_plumbing(c)]


def is_full_view(v, base, length):
    """v is a pointer to `base` at offset 0 whose slice length is `length`."""
    return v[0] == "P" and v[1] == base and not v[2].t and v[3] is not None and v[3] == length


def vstr(v, d=0):
    if v is None:
        return "None"
    if isinstance(v, Poly):
        return repr(v)
    if not isinstance(v, tuple):
        return repr(v)
    if d > 3:
        return "..."
    if v and v[0] == "I":
        return "%r" % (v[1],)
    if v and v[0] == "P":
        return "ptr(%s + %r bytes%s)" % (vstr(v[1], d + 1), v[2], "" if v[3] is None else ", len %r" % (v[3],))
    return "(" + ", ".join(vstr(x, d + 1) for x in v) + ")"


def fstr(facts):
    out = []
    for f in sorted(facts, key=repr):
        if f[0] == "poly":
            out.append("%r %s 0" % (f[2], f[1]))
        elif f[0] == "b" and f[1][0] == "opaque" and isinstance(f[1][1], tuple) and f[1][1][0] == "ovf":
            continue
        else:
            out.append(vstr(f))
    return "{" + "; ".join(out) + "}"


def self_len(a):
    """Length polynomial of the impl's Self = GenericArray<_, N> (or of a &/&mut/Box to it)."""
    b = a.body
    t = b.get("impl_self")
    while t is not None and t.get("k") in ("ref", "ptr"):
        t = t["t"]
    if t is not None and t.get("k") == "adt" and t["def"] == "alloc::boxed::Box":
        t = adt_args(t)[0]
    if t is not None and is_ga(t):
        return a.tenv.length(adt_args(t)[1])
    return None


def check_views(ctx, cfg, rule="C02.V"):
    """Premise shared by several properties: the four view constructors return exactly
    (address of self, N elements).  Engine: abstract interpretation of their bodies."""
    ok = True
    b = ctx.body(cfg, "GenericArray<$0,$1>::len", rule)
    if b is not None:
        a = ctx.analysis(cfg, "GenericArray<$0,$1>::len")
        n = a.tenv.length({"k": "param", "n": b["generics"][1]["n"]})
        good = bool(a.returns) and all(r["val"] == ("I", n) for r in a.returns)
        ctx.ob(rule, "GenericArray<$0,$1>::len", good, "returns %s; expected N (the model used at call sites)" % ", ".join(vstr(r["val"]) for r in a.returns), at=b["at"], cfg=cfg)
    # a view may be built on the crate's own flattening functions (as_slice = slice_from_chunks(from_ref(self))): their call-site model
    # (same address, len * N elements) is verified against their bodies here, where the views rely on it
    from .models import verify_models as _vm
    _vm(ctx, cfg, ["GenericArray<$0,$1>::slice_from_chunks", "GenericArray<$0,$1>::slice_from_chunks_mut"])
    for key in (K_AS_SLICE, K_AS_MUT_SLICE, K_DEREF, K_DEREF_MUT):
        b = ctx.body(cfg, key, rule)
        if b is None:
            ok = False
            continue
        a = ctx.analysis(cfg, key)
        n = self_len(a)
        rets = a.returns
        good = bool(rets) and n is not None and all(is_full_view(r["val"], ("arg", 1), n) for r in rets)
        # the view must be built without consulting anything but self: no effectful call (pointer/slice constructors are pure)
        extra = [c.fn for c in payload_calls(a) if not a.is_pure(c) and not getattr(c, "no_effects", False)]
        # a view exists for EVERY array (any length, any element type - zero-sized ones included): no check in it may be able to fail
        pan = reachable_panics(a)
        st = PROVED if good and not extra and not pan else REFUTED
        ctx.ob(rule, key, st, "returns %s; expected ptr(self + 0 bytes, len %r)%s%s" % (
            ", ".join(vstr(r["val"]) for r in rets), n, "; unexpected calls " + ",".join(extra) if extra else "", ("; can panic: %s" % pan) if pan else ""), at=b["at"], cfg=cfg)
        ok = ok and st == PROVED
    return ok


# ---- lifetime / mutability linkage of a signature (engine F) ---------------------------------

def _regions(ty, out, under_mut=None, db=None, impl=None, depth=0):
    """Collect (region, how) for every region occurrence in a type. how: 'mut' | 'shared' | 'arg'."""
    if ty is None or depth > 12:
        return
    k = ty.get("k")
    if k == "ref":
        out.append((ty["r"], "mut" if ty["mut"] else "shared"))
        _regions(ty["t"], out, db=db, impl=impl, depth=depth + 1)
    elif k == "ptr" or k == "slice":
        _regions(ty["t"], out, db=db, impl=impl, depth=depth + 1)
    elif k == "array":
        _regions(ty["t"], out, db=db, impl=impl, depth=depth + 1)
    elif k == "tuple":
        for x in ty["ts"]:
            _regions(x, out, db=db, impl=impl, depth=depth + 1)
    elif k == "adt":
        for x in ty["args"]:
            if x.get("k") == "region":
                out.append((x["s"], "arg"))
            else:
                _regions(x, out, db=db, impl=impl, depth=depth + 1)
    elif k == "alias":
        # resolve an associated type of the enclosing impl
        if impl is not None:
            name = ty["def"].split("::")[-1]
            for it in impl.get("items", []):
                if it["name"] == name and "ty" in it:
                    _regions(it["ty"], out, db=db, impl=impl, depth=depth + 1)
                    return
        for x in ty["args"]:
            if x.get("k") == "region":
                out.append((x["s"], "arg"))
            else:
                _regions(x, out, db=db, impl=impl, depth=depth + 1)


def lifetime_linkage(db, body):
    """Every region of the return type occurs in an input type, is not 'static, and a `&mut` output region
    occurs in the inputs as `&mut` (or as a lifetime argument of a type, e.g. IterMut<'a, T>).
    Returns (status, detail)."""
    sig = body.get("sig")
    if sig is None:
        return None, "no signature"
    impl = None
    if "impl" in body:
        for i in db.impls:
            if i["path"] == body["impl"]:
                impl = i
    rin, rout = [], []
    for t in sig["inputs"]:
        _regions(t, rin, db=db, impl=impl)
    _regions(sig["output"], rout, db=db, impl=impl)
    if not rout:
        return None, "returns no reference"
    in_any = {r for r, _ in rin}
    in_mut = {r for r, how in rin if how in ("mut", "arg")}
    bad = []
    for r, how in rout:
        if "static" in r:
            bad.append("%s output is 'static" % how)
        elif r not in in_any:
            bad.append("output region %s does not occur in any input" % r.split("::")[-1])
        elif how == "mut" and r not in in_mut:
            bad.append("&mut output derives from a shared input region")
    return (not bad), ("; ".join(bad) if bad else "output regions %d, all tied to inputs" % len(rout))


# ---- tiling (engine C) -----------------------------------------------------------------------

def tiling(a, pieces, total, facts):
    """pieces: list of (offset Poly, extent Poly) in bytes over one base object of `total` bytes.
    Proves: first offset == 0, consecutive pieces adjacent, last end == total (after ordering the pieces by
    provable offset order).  Returns (status, detail)."""
    from .poly import prove
    pf = a.poly_facts(facts)
    ps = list(pieces)
    # order: repeatedly pick the piece whose offset equals the current end
    cur = Poly.const(0)
    order = []
    while ps:
        nxt = None
        for p in ps:
            if prove(("==", p[0] - cur), pf):
                nxt = p
                break
        if nxt is None:
            return REFUTED, "no piece starts at byte %r (pieces: %s)" % (cur, "; ".join("[%r, +%r)" % q for q in pieces))
        if not prove((">=", nxt[1]), pf):
            return UNKNOWN, "extent %r not provably non-negative" % (nxt[1],)
        order.append(nxt)
        ps.remove(nxt)
        cur = cur + nxt[1]
    if not prove(("==", cur - total), pf):
        return REFUTED, "pieces end at byte %r but the object has %r bytes" % (cur, total)
    return PROVED, "pieces %s tile [0, %r) exactly" % ("; ".join("[%r, +%r)" % q for q in order), total)


# ---- element transfers (engine C): raw reads / writes / copies with symbolic extents -----------

def transfers(a):
    """Raw moves of element storage in a body: dict with lists 'read', 'write', 'copy', 'tcopy', 'swap'.
    Each entry carries base, byte offset, byte size (Polys), the value read/written and the call site."""
    te = a.tenv
    out = {"read": [], "write": [], "copy": [], "tcopy": [], "swap": []}
    for c in a.calls:
        fn = c.fn
        if fn in ("core::ptr::read", "core::ptr::read_unaligned", "core::ptr::read_volatile") and c.args[0][0] == "P":
            p = c.args[0]
            out["read"].append({"c": c, "bb": c.bb, "base": p[1], "off": p[2], "ty": c.targs[0], "size": te.size(c.targs[0]), "val": c.ret})
        elif fn in ("core::ptr::write", "core::mem::MaybeUninit::<T>::write") and c.args[0][0] == "P":
            p = c.args[0]
            out["write"].append({"c": c, "bb": c.bb, "base": p[1], "off": p[2], "ty": c.targs[0], "size": te.size(c.targs[0]), "val": c.args[1]})
        elif fn in ("core::ptr::copy", "core::ptr::copy_nonoverlapping") and c.args[0][0] == "P" and c.args[1][0] == "P":
            n = a.as_poly(c.args[2])
            out["copy"].append({"c": c, "bb": c.bb, "src": c.args[0], "dst": c.args[1], "count": n, "ty": c.targs[0], "esize": te.size(c.targs[0])})
        elif fn == "core::mem::transmute_copy" and c.args[0][0] == "P":
            p = c.args[0]
            out["tcopy"].append({"c": c, "bb": c.bb, "base": p[1], "off": p[2], "src_ty": c.targs[0], "ty": c.targs[1], "size": te.size(c.targs[1]), "src_size": te.size(c.targs[0]), "val": c.ret})
        elif fn == "core::slice::<impl [T]>::swap" and c.args[0][0] == "P":
            out["swap"].append({"c": c, "bb": c.bb, "slice": c.args[0], "i": a.as_poly(c.args[1]), "j": a.as_poly(c.args[2]), "esize": te.size(c.targs[0])})
    return out


def peq(a, facts, x, y):
    from .poly import prove
    return prove(("==", x - y), a.poly_facts(facts))


def in_bounds(a, facts, off, size, total):
    """0 <= off and off + size <= total under facts."""
    from .poly import prove
    pf = a.poly_facts(facts)
    return prove((">=", off), pf) and prove((">=", total - off - size), pf)


def check_const_transmute(ctx, cfg, rule="C01.T"):
    """Premise of every by-value reinterpretation, decided by byte provenance on const_transmute's own body: every return path yields
    exactly the bytes of the parameter (all of them, offset 0) and is taken only under size_of::<A>() == size_of::<B>(); every panic exit
    is taken only under a size mismatch; the parameter is moved (never dropped afterwards)."""
    from .segmap import Engine, same_map, path_calls
    from .typestate import has_generic
    key = "const_transmute"
    b = ctx.body(cfg, key, rule)
    if b is None:
        return False
    a = ctx.analysis_inl(cfg, key, split=True, tag="ct")
    te = a.tenv
    A = {"k": "param", "n": b["generics"][0]["n"]}
    B = {"k": "param", "n": b["generics"][1]["n"]}
    sa, sb = te.size(A), te.size(B)
    problems = []
    for r in a.returns:
        if not a.prove(r["facts"], "Eq", sa, sb):
            problems.append("a return path is taken without size_of A == size_of B (%s)" % fstr(r["facts"]))
            continue
        calls = path_calls(a, r)
        if calls is None:
            problems.append("return path not unique")
            continue
        facts = set(r["facts"])
        for c in calls:
            facts |= set(c.facts)
        eng = Engine(a, facts)
        if not eng.replay(calls):
            problems.append("provenance not decided: %s" % eng.fail)
            continue
        pv = eng.prov(r["val"], B)
        if pv is None:
            problems.append("provenance of the result unknown (%s)" % (eng.fail or vstr(r["val"])))
        elif not same_map(eng, pv[0], [(sa, ("arg", 1), Poly.const(0))]):
            problems.append("the result is made of %r, not of the whole parameter" % (pv[0],))
    if not a.returns:
        problems.append("no return path")
    pan = [c for c in a.calls if c.fn.startswith("core::panicking::")]
    okp = bool(pan) and all(a.prove(c.facts, "Ne", sa, sb) for c in pan)
    if not okp:
        problems.append("a panic exit is reachable with equal sizes, or there is no size guard at all")
    dropped = [d for d in a.drops if not d["cleanup"] and not d["place"]["p"] and d["place"]["l"] == 1 and has_generic(d["ty"])]
    if dropped:
        problems.append("the parameter is dropped on the normal path although its bytes were moved into the result")
    st = PROVED if not problems else REFUTED
    ctx.ob(rule, key, st, "; ".join(sorted(set(problems))) if problems else
           "every return path is taken only under size_of A == size_of B and yields exactly the parameter's bytes; panic exits only under a size mismatch; the parameter is moved, not dropped", at=b["at"], cfg=cfg)
    return st == PROVED


# ---- "every element of the full view is handed to a sink" (used by C19.Z) -------------------------

def _pure_full_iter(v, base, length):
    return isinstance(v, tuple) and len(v) == 5 and v[0] == "V" and v[1] == "iter" and v[2] == "slice" and is_full_view(v[3], base, length)


def visits_all(ctx, cfg, a, base, length, sink, sink_iter_res, sink_slice_res):
    """Decide whether body `a` hands every element of the `length`-element view of `base` to the call `sink`
    exactly through one of the recognised complete traversals:
      A  sink(iter)     - `sink` resolved to the element-wise impl for the slice iterator, on the unadapted iterator over the full view
      B  sink(slice)    - `sink` resolved to the element-wise impl for slices, on the full view
      C  for_each(iter, |x| sink(x)) - unadapted iterator over the full view; the closure calls sink on its argument on every path
      D  loop { match iter.next() { Some(x) => sink(x), None => break } } - one next() site on the unadapted iterator, every Some edge passes
         through sink(payload) before the next next(), and the function returns only on the None edge
    Any other payload call (adaptors, sub-slicing, split) is outside the recognised forms -> not proved. Returns (ok, detail)."""
    from .ownership import find_in
    pc = payload_calls(a)
    sinks = [c for c in pc if c.fn == sink]
    others = [c for c in pc if c.fn != sink and c.fn not in ("core::slice::<impl [T]>::iter_mut", "core::slice::<impl [T]>::iter", "core::iter::IntoIterator::into_iter",
                                                             "core::iter::Iterator::next", "core::iter::Iterator::for_each")]
    peel = _peeling_loop(a, pc, base, length, sink)
    if peel is not None:
        return peel
    if others:
        return False, "calls outside the recognised complete traversals: %s" % sorted({c.fn for c in others})
    nexts = [c for c in pc if c.fn == "core::iter::Iterator::next"]
    fes = [c for c in pc if c.fn == "core::iter::Iterator::for_each"]
    if len(sinks) == 1 and not nexts and not fes and sinks[0].args[0][0] == "P" and sinks[0].args[0][3] is None and a.reaches(sinks[0].bb, sinks[0].bb):
        r_ = _counting_loop(a, sinks[0], base, length, sink)
        if r_ is not None:
            return r_
    if len(sinks) == 1 and not nexts and not fes:
        z = sinks[0]
        recv = z.args[0]
        if recv[0] == "P" and recv[3] is not None:
            ok = is_full_view(recv, base, length) and (z.res or "").startswith(sink_slice_res)
            return ok, "form B: %s on the full N-element view: %s (resolved to %s)" % (sink.split("::")[-1], ok, z.res)
        held = z.mem.get((recv[1], ())) if recv[0] == "P" else recv
        ok = _pure_full_iter(held, base, length) and (z.res or "").startswith(sink_iter_res)
        return ok, "form A: %s called on the unadapted iterator over the full N-element view: %s; resolved to %s" % (sink.split("::")[-1], _pure_full_iter(held, base, length), z.res)
    if len(fes) == 1 and not nexts and not sinks:
        f = fes[0]
        it, cl = f.args[0], f.args[1]
        if not _pure_full_iter(it, base, length):
            return False, "form C: for_each receiver is not the unadapted iterator over the full view: %s" % vstr(it)
        if cl == ("V", "fn", sink):
            return True, "form C: for_each(%s) over the unadapted full-view iterator: the sink itself is the function applied to every element" % sink.split("::")[-1]
        if not (cl[0] == "A" and isinstance(cl[1], tuple) and cl[1][0] == "closure"):
            return False, "form C: for_each argument is neither a closure literal nor the sink function itself"
        cbs = [b for b in ctx.db(cfg).bodies if b.get("path") == cl[1][1]]
        if len(cbs) != 1:
            return False, "form C: closure body not found"
        ca = ctx.analysis(cfg, cbs[0]["key"])
        cs = [c for c in ca.calls if c.fn == sink and c.args and c.args[0][0] == "P" and c.args[0][1] == ("arg", 2) and not c.args[0][2].t]
        ok = bool(cs) and bool(ca.returns) and all(any(ca.dominates(c.bb, r["bb"]) for c in cs) for r in ca.returns)
        return ok, "form C: for_each over the unadapted full-view iterator; the closure hands its argument to %s on every path: %s" % (sink.split("::")[-1], ok)
    if len(nexts) == 1 and not fes:
        n = nexts[0]
        recv = n.args[0]
        held = n.mem.get((recv[1], ())) if recv[0] == "P" else None
        if isinstance(held, tuple) and len(held) == 3 and held[0] == "A" and isinstance(held[1], tuple) and held[1][:2] == ("adt", "core::ops::Range") and n.ret[0] == "O" and n.ret[1][0] == "I":
            # form E: for i in 0..N { sink(&mut *base.add(i)) } - every index of the full view once, in order (core's Range iteration is trusted)
            from .poly import prove, Poly as _P
            lo_, hi_ = held[2][0], held[2][1]
            full = lo_ == ("I", _P.const(0)) and hi_[0] == "I" and hi_[1] == length
            idx = n.ret[1][1]
            S_ = None
            good = set()
            for c in sinks:
                p_ = c.args[0]
                if p_[0] == "P" and p_[1] == base and c.targs:
                    S_ = a.tenv.size(c.targs[0])
                    if prove(("==", p_[2] - idx * S_), a.poly_facts(c.facts)):
                        good.add(c.bb)
            if len(good) != len(sinks) or not sinks:
                return False, "form E: %s is not called on element i of the view for the index i yielded by the range" % sink.split("::")[-1]
            none_only = bool(a.returns) and all(("variant", n.ret, 0) in r["facts"] for r in a.returns)
            rets = {r["bb"] for r in a.returns}
            ok, det = _loop_cover(a, n, good, rets)
            return full and ok and none_only, "form E: loop over the index range 0..N: %s; returns only when it is exhausted: %s; %s" % (full, none_only, det)
        if not _pure_full_iter(held, base, length):
            return False, "form D: next() receiver is not the unadapted iterator over the full view: %s" % vstr(held)
        if not (n.ret[0] == "O" and n.ret[1][0] == "P"):
            return False, "form D: next() result not modelled"
        payload = n.ret[1]
        good = {c.bb for c in sinks if c.args[0] == payload}
        if len(good) != len(sinks):
            return False, "form D: %s called on something other than the element just yielded" % sink.split("::")[-1]
        none_only = bool(a.returns) and all(("variant", n.ret, 0) in r["facts"] for r in a.returns)
        rets = {r["bb"] for r in a.returns}
        ok, det = _loop_cover(a, n, good, rets)
        return ok and none_only, "form D: one next() site on the unadapted full-view iterator; returns only on None: %s; %s" % (none_only, det)
    return False, "no recognised complete traversal (sink calls=%d, next sites=%d, for_each=%d)" % (len(sinks), len(nexts), len(fes))


def _peeling_loop(a, pc, base, length, sink):
    """form G: `while let Some((head, tail)) = take(&mut rest).split_first_mut() { sink(head); rest = tail }` - a slice that starts as the full
    view loses its first element in every step (handed to the sink), its end staying where it was (the merged pointer's invariant
    off + size * len == E, established by the abstract interpreter at the loop head), until it is empty: by induction every element once,
    in order. Returns None when the body has no such driver."""
    from .poly import prove, Poly as _P
    drv = [c for c in pc if c.fn in ("core::slice::<impl [T]>::split_first_mut", "core::slice::<impl [T]>::split_first") and c.ret is not None and c.ret[0] == "O" and a.reaches(c.bb, c.bb)]
    if len(drv) != 1:
        return None
    d = drv[0]
    sinks = [c for c in pc if c.fn == sink]
    allowed = ("core::mem::take", "core::slice::<impl [T]>::split_first_mut", "core::slice::<impl [T]>::split_first")
    extra = [c.fn for c in pc if c.fn != sink and c.fn not in allowed]
    if extra:
        return False, "form G: calls besides the peeling driver and the sink: %s" % sorted(set(extra))
    sl = d.args[0]
    if not (sl[0] == "P" and sl[1] == base and sl[3] is not None and d.targs):
        return False, "form G: the slice being peeled is not a view of the object: %s" % vstr(sl)
    S_ = a.tenv.size(d.targs[0])
    head = d.ret[1][2][0]
    good = {c.bb for c in sinks if c.args[0] == head}
    if not sinks or len(good) != len(sinks):
        return False, "form G: %s is called on something other than the element just peeled off" % sink.split("::")[-1]
    # the end stays put and is the end of the full view
    inv = prove(("==", sl[2] + S_ * sl[3] - S_ * length), a.poly_facts(d.facts))
    # the slice the loop starts with is the full view: the carried cell's value on entry
    offs = [x for x in sl[2].atoms() if isinstance(x, tuple) and x[0] == "off" and isinstance(x[1], tuple) and x[1][0] == "phi"]
    start_ok = False
    if len(offs) == 1:
        H, cell = offs[0][1][1], offs[0][1][2]
        loop = {x for x in range(len(a.blocks)) if a.reaches(x, d.bb) and a.reaches(d.bb, x)}
        inits = [x["val"] for x in a.assigns if x["cell"] == cell and x["site"][0] not in loop and a.dominates(x["site"][0], H)]
        for c_ in a.calls:
            if c_.term.get("dest") and (("local", c_.term["dest"]["l"]), ()) == cell and not c_.term["dest"]["p"] and c_.bb not in loop and a.dominates(c_.bb, H) and c_.ret is not None:
                inits.append(c_.ret)
        start_ok = bool(inits) and all(is_full_view(v, base, length) for v in inits)
    elif not sl[2].t and sl[3] == length:
        start_ok = True
    none_only = bool(a.returns) and all(("variant", d.ret, 0) in r["facts"] for r in a.returns)
    ok, det = _loop_cover(a, d, good, {r["bb"] for r in a.returns})
    return bool(inv and start_ok and none_only and ok), ("form G: a slice peeled from the front (split_first): it starts as the full N-element view: %s; its end stays the end of the view: %s; returns only "
                                                         "when it is empty: %s; %s" % (start_ok, bool(inv), none_only, det))


def _counting_loop(a, z, base, length, sink):
    """form F: let mut i = 0; while i < N { sink(&mut *base.add(i)); i += 1 } - by induction on the counter every index 0..N is visited once, in order.
    Returns None if the sink's argument is not indexed by a loop counter at all."""
    from .poly import prove, Poly as _P
    p = z.args[0]
    if p[1] != base or not z.targs:
        return None
    S_ = a.tenv.size(z.targs[0])
    phis = [x for x in p[2].atoms() if isinstance(x, tuple) and x and x[0] == "phi" and isinstance(x[2], tuple) and x[2][0][0] == "local" and x[2][1] == ()]
    if len(phis) != 1:
        return None
    ph = phis[0]
    H, cell = ph[1], ph[2]
    idx = _P.atom(ph)
    if not prove(("==", p[2] - idx * S_), a.poly_facts(z.facts)):
        return False, "form F: the sink is not applied to element i of the view for the loop counter i"
    asg = [s_ for s_ in a.assigns if s_["cell"] == cell and s_["val"][0] == "I"]
    in_loop = [s_ for s_ in asg if a.reaches(s_["site"][0], H) and a.reaches(H, s_["site"][0])]
    init = [s_ for s_ in asg if s_ not in in_loop]
    init_ok = bool(init) and all(s_["val"][1] == _P.const(0) and a.dominates(s_["site"][0], H) for s_ in init)
    step_ok = len(in_loop) == 1 and in_loop[0]["val"][1] == idx + _P.const(1)
    # loop body: blocks between H and the way back to H; no edge leaves it except through H
    body, work = set(), [s2 for s2 in a.edges.get(H, []) if not a.blocks[s2]["cleanup"] and a.reaches(s2, H)]
    while work:
        x = work.pop()
        if x in body or x == H or a.blocks[x]["cleanup"]:
            continue
        body.add(x)
        work.extend(a.edges.get(x, []))
    closed = all(s2 in body or s2 == H or a.blocks[s2]["cleanup"] for x in body for s2 in a.edges.get(x, []))
    exits = [s2 for s2 in a.edges.get(H, []) if not a.blocks[s2]["cleanup"] and s2 not in body]
    exit_ok = bool(exits) and all(any(prove((">=", idx - length), a.poly_facts(fs)) for fs in a.edge_facts.get((H, e), [])) and
                                  all(prove((">=", idx - length), a.poly_facts(fs)) for fs in a.edge_facts.get((H, e), [])) for e in exits)
    enter_ok = all(all(prove((">=", length - idx - _P.const(1)), a.poly_facts(fs)) for fs in a.edge_facts.get((H, s2), [])) for s2 in a.edges.get(H, []) if s2 in body)
    # exactly one sink and one step on every way round
    def once(target_bbs):
        memo = {}

        def go(bb, stack):
            if bb in stack:
                return None
            if bb in memo:
                return memo[bb]
            here = 1 if bb in target_bbs else 0
            out = set()
            for s2 in a.edges.get(bb, []):
                if a.blocks[s2]["cleanup"]:
                    continue
                if s2 == H:
                    out.add(here)
                elif s2 in body:
                    r2 = go(s2, stack | {bb})
                    if r2 is None:
                        return None
                    out |= {here + y for y in r2}
            memo[bb] = out
            return out
        res = set()
        for s2 in a.edges.get(H, []):
            if s2 in body:
                r2 = go(s2, frozenset())
                if r2 is None:
                    return None
                res |= r2
        return res
    sink_once = once({z.bb}) == {1}
    step_once = step_ok and once({in_loop[0]["site"][0]}) == {1}
    ok = init_ok and step_ok and closed and exit_ok and enter_ok and sink_once and step_once
    return ok, ("form F: counting loop `i = 0; while i < N { %s(element i); i += 1 }`: counter starts at 0: %s; advanced by exactly one per iteration: %s; %s applied to element i exactly once per iteration: %s; "
                "the loop is entered only under i < N and left only under i >= N: %s/%s; no other exit: %s" % (sink.split("::")[-1], init_ok, step_once, sink.split("::")[-1], sink_once, enter_ok, exit_ok, closed))


def _loop_cover(a, n, good, rets):
    """Every path that starts on a Some edge of next() `n` reaches a block in `good` before it reaches n.bb again or a return."""
    # the edges of the switch on next()'s result: the sibling edge carries the None fact
    none_src = {x for (x, s2), fs in a.edge_facts.items() if any(("variant", n.ret, 0) in f for f in fs)}
    some_src = {x for (x, s2), fs in a.edge_facts.items() if any(("variant", n.ret, 1) in f for f in fs)}
    some_starts = [s2 for (x, s2), fs in a.edge_facts.items() if x in (none_src & some_src) and any(("variant", n.ret, 1) in f for f in fs)]
    if not some_starts:
        return False, "no Some edge found after next()"
    work, seen = list(some_starts), set()
    while work:
        x = work.pop()
        if x in seen or x in good:
            continue
        seen.add(x)
        if x == n.bb or x in rets:
            return False, "a path from the Some edge reaches %s without handing the element to the sink" % ("the next next()" if x == n.bb else "a return")
        work.extend(a.edges.get(x, []))
    return True, "every Some edge passes through the sink on the yielded element before the next next()"


def pipe_len(a, t):
    """Exact number of items an (unconsumed) iterator pipeline term yields, as a Poly, or None when not determined.
    Range lo..hi (lo <= hi is the caller's obligation where it matters: 0..N always holds), slice iterators, map / enumerate (length preserving),
    zip (the shorter side), rev (same length)."""
    if not isinstance(t, tuple):
        return None
    if len(t) == 3 and t[0] == "A" and isinstance(t[1], tuple) and t[1][:2] == ("adt", "core::ops::Range") and len(t[2]) == 2:
        lo, hi = t[2]
        if lo[0] == "I" and hi[0] == "I" and lo[1].is_const() and lo[1].const_value() == 0:
            return hi[1]
        return None
    if len(t) >= 4 and t[0] == "V" and t[1] == "iter":
        k = t[2]
        if k == "slice" and t[3][0] == "P":
            return t[3][3]
        if k in ("map", "enumerate", "rev", "by_ref", "copied", "cloned"):
            return pipe_len(a, t[3])
        if k == "zip" and len(t) == 5:
            x, y = pipe_len(a, t[3]), pipe_len(a, t[4])
            if x is not None and y is not None and x == y:
                return x
            return None
    return None


def ub_hints(a):
    """Optimiser hints whose violation is undefined behaviour, in both spellings: `if !c { unreachable_unchecked() }` and `assert_unchecked(c)`.
    Returns [(call site, facts under which the hint would be violated)]: the call's path facts for unreachable_unchecked, the path facts plus
    the negated condition for assert_unchecked. A hint is sound iff those facts (with the function's precondition) are contradictory."""
    out = []
    for c in a.calls:
        if c.fn == "core::hint::unreachable_unchecked":
            out.append((c, frozenset(c.facts)))
        elif c.fn == "core::hint::assert_unchecked" and c.args and c.args[0][0] == "B":
            out.append((c, frozenset(c.facts) | frozenset(a.cond_facts(c.args[0][1], False))))
        elif c.fn == "core::hint::assert_unchecked":
            out.append((c, None))
    return out


def check_write_permission(ctx, cfg, rule):
    """No pointer derived from a shared borrow is written through or turned back into `&mut` (mutprov): sweep over every body of the crate with
    its private helpers expanded, plus the fixture (a positive function that must be reported and its negative twin that must not)."""
    import os
    import tempfile
    from . import mutprov
    from .facts import Facts
    from .core import VERIF
    db = ctx.db(cfg)
    n = 0
    for b in db.bodies:
        if b["kind"] not in ("Fn", "AssocFn", "Closure"):
            continue
        if b["kind"] != "Closure" and ctx.is_helper(cfg, b):
            continue
        b2 = ctx.inlined(db, b) if b["kind"] != "Closure" else b
        _t, finds = mutprov.analyse(b2)
        n += 1
        for j, (at_, what) in enumerate(finds):
            ctx.ob(rule, "%s#write-permission#%d" % (b["key"], j), REFUTED, what, at=at_, cfg=cfg)
    ctx.ob(rule, "write-permission sweep (%s)" % cfg, n >= 50, "bodies swept for writes / mutable reborrows through pointers derived from shared borrows: %d (findings are listed separately)" % n, cfg=cfg)
    bld = ctx.builds[cfg]
    out = os.path.join(tempfile.mkdtemp(prefix="mutprov-", dir=bld.dir), "facts.json")
    rc, diags, facts, stderr = bld.compile_witness(os.path.join(VERIF, "fixtures", "mutprov", "lib.rs"), out_facts=out, crate_name="mutprov_fixture")
    if rc != 0 or facts is None:
        ctx.ob(rule, "write-permission fixture (%s)" % cfg, MISSING, "fixture did not compile: %s" % stderr[-300:], cfg=cfg)
        return
    fdb = Facts(facts)
    got = {b["key"]: len(mutprov.analyse(b)[1]) for b in fdb.bodies if b["key"] in ("halves_through_shared", "halves_through_mut")}
    ok = got.get("halves_through_shared", 0) >= 2 and got.get("halves_through_mut", -1) == 0
    ctx.ob(rule, "write-permission fixture (%s)" % cfg, ok, "findings on the fixture: through a shared reborrow -> %s (required: >= 2), through as_mut_ptr -> %s (required: 0)" % (got.get("halves_through_shared"), got.get("halves_through_mut")), cfg=cfg)


def pipe_max(a, t):
    """An upper bound (Poly) on the number of items an iterator pipeline term yields, or None when nothing is known: like pipe_len, but a zip is
    bounded by whichever side is known and `take(n)` by n."""
    if not isinstance(t, tuple):
        return None
    ex = pipe_len(a, t)
    if ex is not None:
        return ex
    if len(t) >= 4 and t[0] == "V" and t[1] == "iter":
        k = t[2]
        if k in ("map", "enumerate", "rev", "by_ref", "copied", "cloned", "filter", "skip", "step_by", "peekable", "fuse", "skip_while", "take_while", "inspect"):
            return pipe_max(a, t[3])
        if k == "zip" and len(t) == 5:
            x, y = pipe_max(a, t[3]), pipe_max(a, t[4])
            return x if x is not None else y
        if k == "take" and len(t) == 5 and t[4][0] == "I":
            return t[4][1]
    return None


def reachable_panics(a, checks=True):
    """Ways a body can panic on a normal (non-cleanup) path, as far as they can be told: compiler-inserted checks and explicit panics whose
    failing condition is not contradicted by the facts they are reached under, and std calls whose documented panic condition is not excluded
    (split_at: mid <= len; Option / Result unwrap / expect: the right variant; slice indexing by a number: index < len). -> list of strings"""
    from .poly import prove as _prove, Poly as _Pl
    out = []
    from .poly import UMAX as _UM
    for x in (getattr(a, "asserts", []) if checks else []):
        if not x["cleanup"] and not _prove((">=", _Pl.const(-1)), a.poly_facts(x["fail_facts"])):
            # an overflow check of usize arithmetic whose mathematical result provably fits cannot fail: a + b <= usize::MAX (every usize
            # quantity is bounded by it), a - b >= 0, a * b <= usize::MAX
            c = x["cond"]
            if c[0] == "B" and isinstance(c[1], tuple) and c[1][0] == "opaque" and isinstance(c[1][1], tuple) and c[1][1][0] == "ovf":
                oo = getattr(a, "ovf_ops", {}).get(c[1][1][1])
                if oo is not None and oo[1] is not None and oo[2] is not None and oo[3] in ("usize", "u64"):
                    pf = a.poly_facts(x["facts"])
                    if oo[0] == "Sub":
                        fits = _prove((">=", oo[1] - oo[2]), pf)
                    else:
                        r_ = oo[1] + oo[2] if oo[0] == "Add" else oo[1] * oo[2]
                        fits = _prove((">=", _Pl.atom(_UM) - r_), pf)
                    if fits:
                        continue
            out.append("check `%s` can fail" % (x["msg"] or "assert")[:60])
    for c in a.calls:
        if a.blocks[c.bb]["cleanup"]:
            continue
        pf = a.poly_facts(c.facts)
        if _prove((">=", _Pl.const(-1)), pf):
            continue   # the call itself is unreachable
        fn = c.fn
        if fn.startswith("core::panicking::"):
            out.append("%s reachable at %s" % (fn.split("::")[-1], c.at))
        elif fn in ("core::slice::<impl [T]>::split_at", "core::slice::<impl [T]>::split_at_mut") and len(c.args) == 2:
            p, mid = c.args[0], a.as_poly(c.args[1])
            if not (p[0] == "P" and p[3] is not None and mid is not None and _prove((">=", p[3] - mid), pf)):
                out.append("%s(mid) with mid <= len not shown (it panics otherwise) at %s" % (fn.split("::")[-1], c.at))
        elif fn in ("core::option::Option::<T>::unwrap", "core::option::Option::<T>::expect", "core::result::Result::<T, E>::unwrap", "core::result::Result::<T, E>::expect"):
            want = 1 if "Option" in fn else 0
            v = c.args[0]
            known = any(f[0] == "variant" and f[1] == v and f[2] == want for f in c.facts) or (v[0] == "A" and isinstance(v[1], tuple) and v[1][0] == "adt" and v[1][2] == want)
            if not known:
                out.append("%s on a value not known to be %s at %s" % (fn.split("::")[-1], "Some" if want else "Ok", c.at))
        elif fn in ("core::ops::Index::index", "core::ops::IndexMut::index_mut") and len(c.args) == 2 and c.args[1][0] == "I":
            p = c.args[0]
            if not (p[0] == "P" and p[3] is not None and _prove((">=", p[3] - c.args[1][1] - 1), pf)):
                out.append("indexing with index < len not shown at %s" % (c.at,))
        elif fn in ("core::slice::<impl [T]>::copy_from_slice", "core::slice::<impl [T]>::clone_from_slice") and len(c.args) == 2:
            p, q = c.args[0], c.args[1]
            if not (p[0] == "P" and q[0] == "P" and p[3] is not None and q[3] is not None and _prove(("==", p[3] - q[3]), pf)):
                out.append("%s with equal lengths not shown at %s" % (fn.split("::")[-1], c.at))
    return sorted(set(out))


# ---- derived views of sized objects stay inside them (sweep) -------------------------------------------

def check_derived_views(ctx, cfg, rule="C01.V"):
    """Every reference the crate manufactures from a raw pointer into a SIZED object it was handed by reference - `&*(p as *const X)` with p
    derived from `&GenericArray<T, N>` / `&[T; k]` / a slice parameter - covers bytes of that object only: 0 <= offset and
    offset + size_of::<X>() <= size of the object, under the guards that dominate the reborrow. Swept over every body of the crate (closures
    included: an upvar pointer is the parent's pointer, and the argument of a closure mapped over `lo..hi` lies in [lo, hi)); sites that are
    the whole object at offset 0 are trivial. A site that cannot be proved is reported: a new windowed / strided / chunked view whose count
    is off by one reaches past the array for the lengths where it matters (K > N), which no test with K <= N sees."""
    from .poly import prove
    from .ownership import find_in
    db = ctx.db(cfg)
    n = nontrivial = 0

    def resolve(a, b, ptr):
        base = ptr[1]
        e = a.base_extent(base)
        if e is not None:
            return e, Poly.const(0), None
        if b["kind"] == "Closure" and base[0] == "obj" and isinstance(base[1], tuple) and base[1][0] == "cell" and base[1][1][0] == ("arg", 1) and len(base[1][1][1]) == 1:
            k = base[1][1][1][0]
            parent = db.by_path.get(b["root"])
            if parent is None:
                return None
            ap = ctx.analysis(cfg, parent["key"])
            aggs = [g for g in ap.aggregates if isinstance(g["kind"], tuple) and g["kind"][0] == "closure" and g["kind"][1] == b["path"]]
            if len(aggs) != 1 or k >= len(aggs[0]["ops"]):
                return None
            op = aggs[0]["ops"][k]
            if op[0] != "P":
                return None
            pe = ap.base_extent(op[1])
            if pe is None:
                return None
            return pe, op[2], (ap, aggs[0])
        return None

    def arg_range(b, ap):
        cpath = b["path"]

        def is_map(t):
            return (isinstance(t, tuple) and len(t) == 5 and t[:3] == ("V", "iter", "map") and isinstance(t[4], tuple) and t[4] and t[4][0] == "A"
                    and isinstance(t[4][1], tuple) and t[4][1][:2] == ("closure", cpath))
        ms = []
        for c in ap.calls:
            if c.ret is not None:
                ms += find_in(c.ret, is_map)
        out = []
        if ms and all(m == ms[0] for m in ms):
            src = ms[0][3]
            if isinstance(src, tuple) and len(src) == 3 and src[0] == "A" and isinstance(src[1], tuple) and src[1][:2] == ("adt", "core::ops::Range") and src[2][0][0] == "I" and src[2][1][0] == "I":
                x = Poly.atom(("arg", 2))
                out += [(">=", x - src[2][0][1]), (">=", src[2][1][1] - x - Poly.const(1))]
        return out
    for b in db.bodies:
        if b["kind"] not in ("Fn", "AssocFn", "Closure") or ctx.is_helper(cfg, b):
            continue
        if not any(s_.get("k") == "assign" and s_["rv"].get("k") in ("ref", "rawptr") and s_["rv"]["p"]["p"] and s_["rv"]["p"]["p"][-1] == "*" for blk in b["mir"]["blocks"] for s_ in blk["stmts"]) \
                and not any(blk["term"]["k"] == "call" and blk["term"]["f"].get("k") == "fn" and "from_raw_parts" in blk["term"]["f"]["def"] for blk in b["mir"]["blocks"]):
            continue
        def judge(a):
            out, cnt, nontriv = [], 0, 0
            sites = []
            for i, d in enumerate(a.derefs):
                p_ = d["ptr"]
                if not d.get("ref") or p_[0] != "P":
                    continue
                r = resolve(a, b, p_)
                if r is None:
                    continue
                ext, off0, par = r
                pt = d["pointee"]
                if pt.get("k") == "slice":
                    if p_[3] is None:
                        continue
                    size = p_[3] * a.tenv.size(pt["t"])
                else:
                    size = a.tenv.size(pt)
                if size is None:
                    continue
                sites.append((i, d, ext, p_[2] + off0, size, par, pt))
            # slices put together from a pointer into such an object and a length: the same obligation with size = len * size_of::<T>()
            for j, c in enumerate(a.calls):
                if c.fn not in ("core::slice::from_raw_parts", "core::slice::from_raw_parts_mut", "core::ptr::slice_from_raw_parts", "core::ptr::slice_from_raw_parts_mut"):
                    continue
                if c.ret is None or c.ret[0] != "P" or c.ret[3] is None or not c.targs:
                    continue
                r = resolve(a, b, c.ret)
                if r is None:
                    continue
                ext, off0, par = r
                esz = a.tenv.size(c.targs[0])
                if esz is None:
                    continue
                sites.append((1000 + j, {"facts": c.facts}, ext, c.ret[2] + off0, c.ret[3] * esz, par, {"k": "slice", "t": c.targs[0]}))
            for i, d, ext, off, size, par, pt in sites:
                cnt += 1
                if not off.t and size == ext:
                    continue   # the whole object
                nontriv += 1
                pf = a.poly_facts(d["facts"])
                if par is not None:
                    pf = pf + arg_range(b, par[0]) + par[0].poly_facts(par[1].get("facts", frozenset()))
                ok = prove((">=", off), pf) and prove((">=", ext - off - size), pf)
                if not ok:
                    # compare in elements instead of bytes when offset, size and extent are all multiples of one element size S: for S > 0 the
                    # inequality in bytes is the inequality in elements, for S == 0 all three are 0 and the view is trivially inside
                    def div_atom(q, at_):
                        out = {}
                        for mono, c_ in q.t.items():
                            if at_ not in mono:
                                return None
                            m2 = list(mono)
                            m2.remove(at_)
                            out[tuple(m2)] = out.get(tuple(m2), 0) + c_
                        return Poly(out)
                    for at_ in sorted({x_ for x_ in ext.atoms() if isinstance(x_, tuple) and x_ and x_[0] == "S"}, key=repr):
                        o2, s2, e2 = div_atom(off, at_), div_atom(size, at_), div_atom(ext, at_)
                        if o2 is not None and s2 is not None and e2 is not None and prove((">=", o2), pf) and prove((">=", e2 - o2 - s2), pf):
                            ok = True
                            break
                from .tys import tstr as _ts
                out.append(("%s#view#%d" % (b["key"], i), ok, "reference to %s manufactured at byte offset %r of an object of %r bytes; inside the object under the dominating guards%s: %s" % (
                    _ts(pt), off, ext, " and the range of the closure's argument" if par is not None else "", ok)))
            return out, cnt, nontriv
        res, c1, c2 = judge(ctx.analysis(cfg, b["key"]))
        if any(not ok for _k, ok, _d in res) and b["kind"] != "Closure":
            # a guard may reach the reborrow through a merged boolean (`assert!(matches!(len.checked_sub(N), Some(0)))`): judge the tree-shaped body
            # with the crate-local helpers expanded, where every copy of the site lies on one path with that path's own facts
            a2 = ctx.analysis_inl(cfg, b["key"], split=True, force="*", tag="views")
            if a2 is not None:
                res2, c1b, c2b = judge(a2)
                if res2 and all(ok for _k, ok, _d in res2):
                    res = [("%s#view#tree" % b["key"], True, "%d site(s) on the tree-shaped, fully expanded body, each inside its object under the facts of its own path" % len(res2))]
        n += c1
        nontrivial += c2
        for k_, ok_, d_ in res:
            ctx.ob(rule, k_, ok_, d_, at=b["at"], cfg=cfg, frozen=False)
    ctx.ob(rule, "sweep (%s)" % cfg, n >= 3, "reborrows of pointers into sized objects handed in by reference: %d, of which %d view a part of the object or a differently sized type" % (n, nontrivial), cfg=cfg)
    return n


def check_no_generic_zeroed(ctx, cfg, rule):
    """`mem::zeroed::<X>()` is valid only for types whose all-zero bit pattern is a value: for an X that mentions a type parameter (an array of
    caller-chosen elements) it is not in general - the intrinsic's validity check aborts the process for references, NonZero, NonNull, Box, String ..
    (and where it is not checked, an invalid value exists). Storage that is filled in afterwards is `MaybeUninit`; a zeroed generic value is a
    violation wherever it appears. Zero instances on the reviewed tree; the seeds S225 / S235 are the positive examples in the selftest."""
    from .typestate import has_generic
    db = ctx.db(cfg)
    n = 0
    for b in db.bodies:
        if b["kind"] not in ("Fn", "AssocFn", "Closure"):
            continue
        for blk in b["mir"]["blocks"]:
            t = blk["term"]
            if t["k"] != "call" or t["f"].get("k") != "fn" or t["f"]["def"] not in ("core::mem::zeroed", "core::mem::MaybeUninit::<T>::zeroed"):
                continue
            ta = [x for x in t["f"].get("args", []) if x.get("k") != "region"]
            n += 1
            if t["f"]["def"] == "core::mem::zeroed" and ta and has_generic(ta[0]):
                from .tys import tstr as _ts
                ctx.ob(rule, "%s#zeroed#%d" % (b["key"], n), REFUTED, "mem::zeroed::<%s>() - a zeroed value of a type that mentions a type parameter: invalid (and an abort) for element types without a valid all-zero pattern" % _ts(ta[0]),
                       at=t.get("at") or b["at"], cfg=cfg)
    ctx.ob(rule, "zeroed sweep (%s)" % cfg, PROVED, "calls of mem::zeroed / MaybeUninit::zeroed in the crate: %d; none makes a zeroed value of a generic type" % n, cfg=cfg)
    return n
